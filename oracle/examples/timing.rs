//! Rough per-call timings (microseconds) of cdf_sf for representative / worst-case parameters.
use std::time::Instant;
use vorac::{Cont, Disc, DiscTable};

fn time_cont(law: Cont) {
    let qs: Vec<f64> = (1..200).map(|i| i as f64 / 200.0).collect();
    let xs: Vec<f64> = qs.iter().map(|&q| law.quantile(q)).collect();
    let reps = 20;
    let t = Instant::now();
    let mut acc = 0.0;
    let mut worst = 0.0f64;
    for _ in 0..reps {
        for &x in &xs {
            let t1 = Instant::now();
            acc += law.cdf_sf(x).0;
            worst = worst.max(t1.elapsed().as_secs_f64());
        }
    }
    let per = t.elapsed().as_secs_f64() / (reps * xs.len()) as f64;
    println!("{:<70} {:>9.2} us/call  worst {:>9.2} us   ({acc:.3})", format!("{law:?}"), per * 1e6, worst * 1e6);
}

fn time_disc(law: Disc) {
    let qs: Vec<f64> = (1..100).map(|i| i as f64 / 100.0).collect();
    let ks: Vec<u64> = qs.iter().map(|&q| law.quantile(q)).collect();
    let reps = 5;
    let t = Instant::now();
    let mut acc = 0.0;
    let mut worst = 0.0f64;
    for _ in 0..reps {
        for &k in &ks {
            let t1 = Instant::now();
            acc += law.cdf_sf(k).0;
            worst = worst.max(t1.elapsed().as_secs_f64());
        }
    }
    let per = t.elapsed().as_secs_f64() / (reps * ks.len()) as f64;
    let t = Instant::now();
    let mut sk = ks.clone();
    sk.sort_unstable();
    let tb = DiscTable::new(&law, &sk);
    let tt = t.elapsed().as_secs_f64();
    println!(
        "{:<70} {:>9.2} us/call  worst {:>9.2} us   table({} ks) {:>9.3} ms  ({acc:.3} {})",
        format!("{law:?}"),
        per * 1e6,
        worst * 1e6,
        sk.len(),
        tt * 1e3,
        tb.vals.len()
    );
}

fn main() {
    for law in [
        Cont::Normal { mean: 0.0, sd: 1.0 },
        Cont::Gamma { shape: 0.01, scale: 1.0 },
        Cont::Gamma { shape: 2.5, scale: 1.0 },
        Cont::Gamma { shape: 1e3, scale: 1.0 },
        Cont::Gamma { shape: 1e5, scale: 1.0 },
        Cont::ChiSquared { k: 2e5 },
        Cont::StudentT { nu: 0.1 },
        Cont::StudentT { nu: 5.0 },
        Cont::StudentT { nu: 1e5 },
        Cont::FisherF { m: 1e4, n: 1e4 },
        Cont::FisherF { m: 0.1, n: 1e4 },
        Cont::Beta { a: 0.01, b: 0.01 },
        Cont::Beta { a: 2.0, b: 3.0 },
        Cont::Beta { a: 1e4, b: 1e4 },
        Cont::Beta { a: 0.01, b: 1e4 },
        Cont::Pert { min: 0.0, max: 1.0, mode: 0.3, shape: 100.0 },
        Cont::SkewNormal { loc: 0.0, scale: 1.0, shape: 1.0 },
        Cont::SkewNormal { loc: 0.0, scale: 1.0, shape: 1e3 },
        Cont::SkewNormal { loc: 0.0, scale: 1.0, shape: -7.0 },
        Cont::InverseGaussian { mean: 1e3, shape: 1e-3 },
        Cont::InverseGaussian { mean: 1.0, shape: 1.0 },
        Cont::Nig { alpha: 1.0, beta: 0.0 },
        Cont::Nig { alpha: 1e2, beta: 99.0 },
        Cont::Nig { alpha: 1e-2, beta: -0.0098 },
        Cont::Nig { alpha: 1e2, beta: 0.0 },
    ] {
        time_cont(law);
    }
    for law in [
        Disc::Binomial { n: 100, p: 0.1 },
        Disc::Binomial { n: 1_000_000, p: 0.5 },
        Disc::Binomial { n: 1_600_000_000, p: 0.5 },
        Disc::Binomial { n: 1 << 62, p: 0.3 },
        Disc::Binomial { n: 1 << 62, p: 1e-18 },
        Disc::Poisson { lambda: 12.0 },
        Disc::Poisson { lambda: 1e6 },
        Disc::Poisson { lambda: 1.9e7 },
        Disc::Poisson { lambda: 1e15 },
        Disc::Geometric { p: 1e-12 },
        Disc::Hypergeometric { total: 1_000_000, feature: 500_000, draws: 500_000 },
        Disc::Hypergeometric { total: 1 << 40, feature: 1 << 39, draws: 1 << 30 },
        Disc::Hypergeometric { total: 1 << 40, feature: 1 << 39, draws: 1 << 39 },
        Disc::Zipf { n: 1_000_000_000_000_000, s: 1.0001 },
        Disc::Zipf { n: 10_000_000, s: 0.5 },
        Disc::Zeta { s: 1.02 },
        Disc::Zeta { s: 100.0 },
    ] {
        time_disc(law);
    }
}
