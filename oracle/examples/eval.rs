//! stdin lines: `C <family> <x> <params...>` or `D <family> <k> <params...>`
//! stdout: `cdf sf [pmf err_bound]` with 17 significant digits.  Used by ad-hoc cross-checks.
use std::io::{self, BufRead, Write};
use vorac::{Cont, Disc};

fn main() {
    let stdin = io::stdin();
    let out = io::stdout();
    let mut out = io::BufWriter::new(out.lock());
    for line in stdin.lock().lines() {
        let line = line.unwrap();
        let t: Vec<&str> = line.split_whitespace().collect();
        if t.len() < 3 {
            continue;
        }
        if t[0] == "C" {
            let x: f64 = t[2].parse().unwrap();
            let p: Vec<f64> = t[3..].iter().map(|s| s.parse().unwrap()).collect();
            let law = Cont::from_name(t[1], &p).expect("family");
            writeln!(out, "{:.17e} {:.17e} {:.17e}", law.cdf(x), law.sf(x), law.pdf(x)).unwrap();
        } else {
            let k: u64 = t[2].parse().unwrap();
            let law = match t[1] {
                "Binomial" => Disc::Binomial { n: t[3].parse().unwrap(), p: t[4].parse().unwrap() },
                "Poisson" => Disc::Poisson { lambda: t[3].parse().unwrap() },
                "Geometric" => Disc::Geometric { p: t[3].parse().unwrap() },
                "Hypergeometric" => Disc::Hypergeometric {
                    total: t[3].parse().unwrap(),
                    feature: t[4].parse().unwrap(),
                    draws: t[5].parse().unwrap(),
                },
                "Zipf" => Disc::Zipf { n: t[3].parse().unwrap(), s: t[4].parse().unwrap() },
                "Zeta" => Disc::Zeta { s: t[3].parse().unwrap() },
                _ => panic!("family"),
            };
            writeln!(out, "{:.17e} {:.17e} {:.17e} {:.3e}", law.cdf(k), law.sf(k), law.pmf(k), law.err_bound()).unwrap();
        }
    }
}
