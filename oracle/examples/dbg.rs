use vorac::Cont;
fn main() {
    let law = Cont::SkewNormal { loc: 0.0, scale: 1.0, shape: -7.0 };
    for i in 1..200 {
        let q = i as f64 / 200.0;
        let x = law.quantile(q);
        let (c, s) = law.cdf_sf(x);
        if !(c.is_finite() && s.is_finite()) || (c - q).abs() > 1e-9 {
            println!("q={q} x={x:e} c={c:e} s={s:e}");
        }
    }
}
