"""Discrete reference laws in mpmath.  scipy is used only to choose the k grid.
Records for parameters outside the "moderate" region are marked loose=True."""
import math
import mpmath as mp
import numpy as np
from scipy import stats
from genref_common import *
import genref_cont as gc

mpf = mp.mpf
U64MAX = 2 ** 64 - 1


# ------------------------------------------------------------ incomplete beta / gamma for huge parameters
def beta_cs_any(a, b, x, y, dps_extra=0):
    """(I_x(a,b), 1-I_x(a,b)) for integer-ish a,b of any size.  Positive series when it is short,
    otherwise panel-wise tanh-sinh quadrature of the density on BOTH sides (sum checked against 1)."""
    def nterms(a_, b_, x_, y_):
        hump = max(mpf(0), (x_ * (a_ + b_) - a_ - 1) / y_)
        # beyond the hump the terms fall like exp(-y (j-hump)^2 / (2 (a+hump))) and finally like x^j
        return hump + 22 * mp.sqrt((a_ + hump) / y_) + 250 / (-mp.log1p(-y_))
    if min(nterms(a, b, x, y), nterms(b, a, y, x)) < 3e5:
        old = gc.CHECK_QUAD
        gc.CHECK_QUAD = (a + b) < 1e7
        try:
            return gc._beta_cs(a, b, x, y)
        finally:
            gc.CHECK_QUAD = old
    digits = 45 + 2 * int(mp.log10(a + b)) + dps_extra
    with mp.workdps(digits):
        lb = mp.loggamma(a + b) - mp.loggamma(a) - mp.loggamma(b)
        f = lambda u: mp.exp((a - 1) * mp.log(u) + (b - 1) * mp.log1p(-u) + lb) if 0 < u < 1 else mpf(0)
        mode = (a - 1) / (a + b - 2)
        w = mp.sqrt(a * b / ((a + b) ** 2 * (a + b + 1)))
        lo_end = max(mpf(0), min(x, mode) - 70 * w)
        hi_end = min(mpf(1), max(x, mode) + 70 * w)
        c = gc.quad_panels(f, gc._peak_panels(mode, w, 0, 1, lo_end, x))
        s = gc.quad_panels(f, gc._peak_panels(mode, w, 0, 1, x, hi_end))
        assert abs(c + s - 1) < mpf(10) ** (-30), ("beta quad normalisation", a, b, x, c + s - 1)
        return +c, +s


def gamma_cs_any(a, t):
    """(P(a,t), Q(a,t)) for any size of a."""
    nterm = max(mpf(0), t - a) + 25 * mp.sqrt(t) + 300
    if nterm < 4e5:
        old = gc.CHECK_QUAD
        gc.CHECK_QUAD = a < 1e5
        try:
            return gc._gamma_cs(a, t)
        finally:
            gc.CHECK_QUAD = old
    digits = 45 + 2 * int(mp.log10(a))
    with mp.workdps(digits):
        lg = mp.loggamma(a)
        f = lambda u: mp.exp((a - 1) * mp.log(u) - u - lg) if u > 0 else mpf(0)
        mode, w = a - 1, mp.sqrt(a)
        lo_end = max(mpf(0), min(t, mode) - 70 * w)
        hi_end = max(t, mode) + 70 * w
        c = gc.quad_panels(f, gc._peak_panels(mode, w, 0, mp.inf, lo_end, t))
        s = gc.quad_panels(f, gc._peak_panels(mode, w, 0, mp.inf, t, hi_end))
        assert abs(c + s - 1) < mpf(10) ** (-30), ("gamma quad normalisation", a, t, c + s - 1)
        return +c, +s


# ------------------------------------------------------------ reference (pmf, cdf, sf)
def ref_binomial(p, k):
    n, pr = p[0], M(p[1])
    if k >= n:
        pm = mp.exp(n * mp.log(pr)) if k == n else mpf(0)
        return pm, mpf(1), mpf(0)
    with mp.workdps(60 + 2 * len(str(n))):
        pm = mp.exp(mp.loggamma(n + 1) - mp.loggamma(k + 1) - mp.loggamma(n - k + 1)
                    + k * mp.log(pr) + (n - k) * mp.log1p(-pr))
        pm = +pm
    s, c = beta_cs_any(mpf(k + 1), mpf(n - k), pr, 1 - pr)   # sf(k) = I_p(k+1, n-k)
    if n <= 3000:  # fully independent check: exact summation of the pmf
        with mp.workdps(60):
            tot = mpf(0)
            for j in range(0, k + 1):
                tot += mp.binomial(n, j) * pr ** j * (1 - pr) ** (n - j)
            assert abs(tot - c) < mpf(10) ** (-40), ("binomial direct sum", p, k)
    return pm, c, s


def ref_poisson(p, k):
    lam = M(p[0])
    with mp.workdps(60 + 2 * len(str(k))):
        pm = +mp.exp(k * mp.log(lam) - lam - mp.loggamma(k + 1))
    s, c = gamma_cs_any(mpf(k + 1), lam)   # cdf(k) = Q(k+1, lam)
    if p[0] <= 200 and k <= 2000:
        with mp.workdps(60):
            tot = sum(mp.exp(j * mp.log(lam) - lam - mp.loggamma(j + 1)) for j in range(k + 1))
            assert abs(tot - c) < mpf(10) ** (-40), ("poisson direct sum", p, k)
    return pm, c, s


def ref_geometric(p, k):
    pr = M(p[0])
    if pr == 1:
        return (mpf(1) if k == 0 else mpf(0)), mpf(1), mpf(0)
    l = mp.log1p(-pr)
    return pr * mp.exp(k * l), -mp.expm1((k + 1) * l), mp.exp((k + 1) * l)


class HyperRef:
    """all-at-once reference for one (N,K,n): sums the pmf recurrence outward from the mode (mp, 45 digits)"""

    def __init__(self, N, K, n, ks):
        self.N, self.K, self.n = N, K, n
        lo, hi = max(0, n + K - N), min(n, K)
        self.lo, self.hi = lo, hi
        want = sorted(set(k for k in ks if lo <= k <= hi))
        with mp.workdps(45):
            mode = min(hi, max(lo, ((n + 1) * (K + 1)) // (N + 2)))
            with mp.workdps(50 + 2 * len(str(N))):
                lp = (mp.loggamma(K + 1) - mp.loggamma(mode + 1) - mp.loggamma(K - mode + 1)
                      + mp.loggamma(N - K + 1) - mp.loggamma(n - mode + 1) - mp.loggamma(N - K - n + mode + 1)
                      - mp.loggamma(N + 1) + mp.loggamma(n + 1) + mp.loggamma(N - n + 1))
                pmode = mp.exp(lp)
            pmode = +pmode
            self.pmf = {mode: pmode}
            # upward: U(j) = sum_{i=mode+1}^{j} pmf(i)
            wu = set(k for k in want if k > mode)
            self.U = {}
            t, acc, j = pmode, mpf(0), mode
            eps = mpf(10) ** (-52)
            while j < hi:
                t = t * ((K - j) * (n - j)) / ((j + 1) * (N - K - n + j + 1))
                j += 1
                acc += t
                if j in wu:
                    self.U[j] = acc
                    self.pmf[j] = t
                if t < eps * pmode:
                    break
            self.Utot = acc
            self.jmax = j
            wd = set(k for k in want if k < mode)
            # downward: D(j) = sum_{i=j}^{mode} pmf(i)
            self.D = {mode: pmode}
            t, acc, j = pmode, pmode, mode
            while j > lo:
                t = t * (j * (N - K - n + j)) / ((K - j + 1) * (n - j + 1))
                j -= 1
                acc += t
                if j in wd:
                    self.D[j] = acc
                    self.pmf[j] = t
                if t < eps * pmode:
                    break
            self.Dtot = acc
            self.jmin = j
            self.mode = mode
            assert abs(self.Dtot + self.Utot - 1) < mpf(10) ** (-36), ("hypergeometric normalisation", N, K, n,
                                                                      self.Dtot + self.Utot - 1)

    def get(self, k):
        if k < self.lo:
            return mpf(0), mpf(0), mpf(1)
        if k > self.hi:
            return mpf(0), mpf(1), mpf(0)
        if k > self.jmax:
            return mpf(0), mpf(1), mpf(0)
        if k < self.jmin:
            return mpf(0), mpf(0), mpf(1)
        if k >= self.mode:
            u = self.U[k] if k > self.mode else mpf(0)
            s = self.Utot - u
            return self.pmf[k], 1 - s, s
        c = self.Dtot - self.D[k] + self.pmf[k]
        return self.pmf[k], c, 1 - c


def _hz(s, a):
    """Hurwitz zeta(s, a) (analytic continuation for s < 1)"""
    return mp.zeta(s, a)


def zipf_sum(s, a, b):
    """sum_{j=a}^{b} j^-s"""
    if b < a:
        return mpf(0)
    if b - a < 200:
        return sum(mpf(j) ** (-s) for j in range(a, b + 1))
    if s == 1:
        return mp.digamma(b + 1) - mp.digamma(a)
    if s == 0:
        return mpf(b - a + 1)
    return _hz(s, a) - _hz(s, b + 1)


def ref_zipf(p, k):
    n, s = p[0], M(p[1])
    with mp.workdps(70):
        h = zipf_sum(s, 1, n)
        lo = zipf_sum(s, 1, min(k, n))
        hi = zipf_sum(s, k + 1, n)
        assert abs(lo + hi - h) < mpf(10) ** (-45) * h, ("zipf split", p, k)
        pm = mpf(k) ** (-s) / h if 1 <= k <= n else mpf(0)
        return +pm, +(lo / h), +(hi / h)


def ref_zeta(p, k):
    s = M(p[0])
    with mp.workdps(70):
        z = mp.zeta(s)
        hi = _hz(s, k + 1)
        lo = z - hi
        if k <= 300:
            d = sum(mpf(j) ** (-s) for j in range(1, k + 1))
            assert abs(d - lo) < mpf(10) ** (-50) * z, ("zeta direct", p, k)
        return +(mpf(k) ** (-s) / z), +(lo / z), +(hi / z)


# ------------------------------------------------------------ k grids
def normal_ks(mean, sd, g1, lo, hi):
    ks = []
    for q in QLEVELS:
        z = float(stats.norm.ppf(q)) if q <= 0.5 else -float(stats.norm.ppf(1 - q))
        x = mean + sd * (z + g1 * (z * z - 1) / 6)
        ks.append(min(hi, max(lo, int(round(x)))))
    return ks


def int_bisect(cdf_sf, q, lo, hi):
    """smallest k in [lo,hi] with cdf(k) >= q  (cdf_sf(k) -> (cdf, sf) low precision)"""
    def ok(k):
        c, s = cdf_sf(k)
        return c >= q if q <= 0.5 else s <= 1 - q
    if ok(lo):
        return lo
    if not ok(hi):
        return hi
    while hi - lo > 1:
        mid = (lo + hi) // 2
        if ok(mid):
            hi = mid
        else:
            lo = mid
    return hi


BINOMIAL = [  # (n, p, loose)
    (1, 0.5, False), (2, 0.25, False), (10, 0.5, False), (20, 0.5, False), (100, 0.1, False), (1000, 0.01, False),
    (1000, 0.0099, False), (1000, 0.0101, False), (50, 0.3, False), (1000, 0.5, False), (12345, 0.9, False),
    (10 ** 5, 0.3, False), (10 ** 6, 0.5, False), (10 ** 6, 1e-5, False), (10 ** 6, 0.999, False),
    (10 ** 6, 0.03, False), (37, 0.27, False),
    (2 ** 62, 1e-18, True), (2 ** 62, 0.3, True), (2 ** 63, 0.5, True), (U64MAX, 1e-10, True), (U64MAX, 0.5, True),
    (10 ** 12, 0.5, True), (10 ** 9, 1e-3, True), (4 * 10 ** 9, 0.25, True), (10 ** 10, 0.1, True),
    (2 ** 62, 2.0 ** -62 * 10, True), (10 ** 15, 0.999999, True), (3 * 10 ** 9, 0.5, True), (10 ** 7, 0.5, True),
]
POISSON = [(0.1, False), (1.0, False), (5.0, False), (11.9, False), (12.0, False), (12.1, False), (100.0, False),
           (1e3, False), (1e4, False), (1e5, False), (1e6, False), (1e7, True), (1.9e7, True), (3e7, True), (1e9, True),
           (1e12, True), (1e15, True), (1.8e19, True), (123456.789, False)]
GEOMETRIC = [2 / 3, 0.5, 1e-3, 1e-12, 1.0, 0.999, 0.1, 0.25, 1e-6, 0.9, 1e-9, 0.01, 0.3]
HYPER_SMALL = [(10, 5, 5), (20, 7, 12), (40, 13, 20), (15, 15, 5), (9, 4, 9), (31, 30, 16), (7, 0, 3), (1, 1, 1)]
HYPER = [  # (N, K, n, loose)
    (100, 50, 20, False), (1000, 100, 100, False), (1001, 500, 501, False), (10 ** 6, 5 * 10 ** 5, 5 * 10 ** 5, False),
    (10 ** 6, 10, 500000, False), (10 ** 6, 1000, 1000, False), (99999, 33333, 50000, False), (500, 499, 250, False),
    (12345, 6000, 12000, False), (10 ** 6, 999000, 2000, False), (2 ** 20 + 1, 2 ** 19, 2 ** 10, False),
    (2 ** 40, 1000, 2 ** 39, True), (2 ** 40, 2 ** 30, 2 ** 20, True), (2 ** 40, 2 ** 39, 2 ** 20, True),
    (2 ** 40, 2 ** 39, 2 ** 30, True), (2 ** 40, 2 ** 39, 2 ** 32, True), (2 ** 40, 2 ** 39, 2 ** 39, True),
    (2 ** 40, 2 ** 39 + 1, 2 ** 38 + 3, True), (2 ** 40 - 1, 2 ** 36, 2 ** 37, True), (2 ** 34, 2 ** 33, 2 ** 33, True),
]
ZIPF_S = [0.0, 0.5, 0.999, 1.0, 1.0001, 2.0, 20.0]
ZIPF_N = [1, 2, 10, 10 ** 6, 10 ** 15]
ZIPF_EXTRA = [(10 ** 7, 1.5), (1000, 0.1), (33, 3.0), (10 ** 9, 1.0), (50, 1.0), (100, 7.5), (10 ** 12, 0.25)]
ZETA = [1.02, 1.05, 1.2, 2.0, 3.0, 10.0, 100.0, 1.1, 1.5, 2.5, 4.0, 6.0, 30.0]


def job_binomial(args):
    n, pr, loose = args
    mean, var = n * pr, n * pr * (1 - pr)
    sd = math.sqrt(var)
    ks = set([0, n])
    if n < 2 ** 31:
        for q in QLEVELS:
            ks.add(int(stats.binom.ppf(q, n, pr)) if q <= 0.5 else int(stats.binom.isf(1 - q, n, pr)))
    elif sd < 50:
        for q in QLEVELS:
            ks.add(int(stats.poisson.ppf(q, mean)) if q <= 0.5 else int(stats.poisson.isf(1 - q, mean)))
    else:
        ks.update(normal_ks(mean, sd, (1 - 2 * pr) / sd, 0, n))
    if n <= 50:
        ks.update(range(n + 1))
    ks.update(k + 1 for k in list(ks) if k + 1 <= n and len(ks) < 40)
    out = []
    for k in sorted(ks):
        pm, c, s = ref_binomial((n, pr), k)
        out.append(record_json("Binomial", [n, pr], "k", k, {"pmf": pm, "cdf": c, "sf": s}, loose))
    return out


def job_poisson(args):
    lam, loose = args
    ks = set([0])
    if lam < 1e8:
        for q in QLEVELS:
            ks.add(int(stats.poisson.ppf(q, lam)) if q <= 0.5 else int(stats.poisson.isf(1 - q, lam)))
    else:
        ks.update(normal_ks(lam, math.sqrt(lam), 1 / math.sqrt(lam), 0, U64MAX))
    if lam >= 1e19:
        ks.add(U64MAX)
        ks.add(U64MAX - 1)
    ks.update(k + 1 for k in list(ks) if k < U64MAX and len(ks) < 40)
    out = []
    for k in sorted(ks):
        pm, c, s = ref_poisson((lam,), k)
        out.append(record_json("Poisson", [lam], "k", k, {"pmf": pm, "cdf": c, "sf": s}, loose))
    return out


def job_geometric(pr):
    ks = set([0, 1, 2])
    if pr < 1:
        for q in QLEVELS:
            v = math.log1p(-q) / math.log1p(-pr) if q <= 0.5 else math.log(1 - q) / math.log1p(-pr)
            ks.add(min(U64MAX, max(0, int(math.ceil(v)) - 1)))
        ks.add(U64MAX)
    out = []
    for k in sorted(ks):
        pm, c, s = ref_geometric((pr,), k)
        out.append(record_json("Geometric", [pr], "k", k, {"pmf": pm, "cdf": c, "sf": s}))
    return out


def job_hyper(args):
    N, K, n, loose, exhaustive = args
    lo, hi = max(0, n + K - N), min(n, K)
    ks = set([lo, hi])
    if exhaustive:
        ks.update(range(lo, hi + 1))
        if lo > 0:
            ks.add(lo - 1)
        ks.add(hi + 1)
    else:
        mean = n * K / N
        var = n * (K / N) * ((N - K) / N) * ((N - n) / (N - 1))
        sd = math.sqrt(var)
        if N <= 10 ** 7:
            for q in QLEVELS:
                d = stats.hypergeom(N, K, n)
                ks.add(int(d.ppf(q)) if q <= 0.5 else int(d.isf(1 - q)))
        else:
            g1 = (N - 2 * K) * math.sqrt(N - 1) * (N - 2 * n) / (math.sqrt(n * K * (N - K) * (N - n)) * (N - 2))
            ks.update(normal_ks(mean, sd, g1, lo, hi))
        ks.update(k + 1 for k in list(ks) if k + 1 <= hi and len(ks) < 40)
    ref = HyperRef(N, K, n, ks)
    out = []
    for k in sorted(ks):
        pm, c, s = ref.get(k)
        out.append(record_json("Hypergeometric", [N, K, n], "k", k, {"pmf": pm, "cdf": c, "sf": s}, loose))
    return out


def job_zipf(args):
    n, s = args
    loose = n > 10 ** 7

    def low(k):
        with mp.workdps(18):
            _, c, sf = ref_zipf((n, s), k)
            return float(c), float(sf)
    ks = set([1, n])
    for q in QLEVELS:
        ks.add(int_bisect(low, q, 1, n))
    ks.update(k + 1 for k in list(ks) if k + 1 <= n and len(ks) < 40)
    if n <= 10:
        ks.update(range(1, n + 1))
    out = []
    for k in sorted(ks):
        pm, c, sf = ref_zipf((n, s), k)
        out.append(record_json("Zipf", [n, s], "k", k, {"pmf": pm, "cdf": c, "sf": sf}, loose))
    return out


def job_zeta(s):
    def low(k):
        with mp.workdps(18):
            _, c, sf = ref_zeta((s,), k)
            return float(c), float(sf)
    ks = set([1, 2, 3, U64MAX, U64MAX - 1])
    for q in QLEVELS:
        ks.add(int_bisect(low, q, 1, U64MAX))
    ks.update(k + 1 for k in list(ks) if k < U64MAX and len(ks) < 40)
    out = []
    for k in sorted(ks):
        pm, c, sf = ref_zeta((s,), k)
        out.append(record_json("Zeta", [s], "k", k, {"pmf": pm, "cdf": c, "sf": sf}))
    return out


def all_jobs():
    jobs = []
    jobs += [(job_binomial, a) for a in BINOMIAL]
    jobs += [(job_poisson, a) for a in POISSON]
    jobs += [(job_geometric, a) for a in GEOMETRIC]
    jobs += [(job_hyper, a + (False, True)) for a in HYPER_SMALL]
    jobs += [(job_hyper, a + (False,)) for a in HYPER]
    jobs += [(job_zipf, (n, s)) for s in ZIPF_S for n in ZIPF_N]
    jobs += [(job_zipf, a) for a in ZIPF_EXTRA]
    jobs += [(job_zeta, s) for s in ZETA]
    return jobs
