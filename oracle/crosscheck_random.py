#!/usr/bin/env python3-vt
"""Randomised cross-check of the continuous oracle against the mpmath references of genref_cont.py.

    python3-vt crosscheck_random.py [n_param_sets_per_family] [seed]

Parameters are drawn log-uniformly over the accuracy envelope (README), abscissae at random
quantile levels 10^-U(0,13) in either tail plus body points.  Needs
`cargo build --release -p vorac --examples` (uses target/release/examples/eval)."""
import math
import os
import random
import subprocess
import sys
import multiprocessing as mproc

HERE = os.path.dirname(os.path.abspath(__file__))
sys.path.insert(0, HERE)
EVAL = os.path.join(HERE, "..", "target", "release", "examples", "eval")


def lu(r, a, b):
    return math.exp(r.uniform(math.log(a), math.log(b)))


def sgn(r):
    return r.choice((-1.0, 1.0))


def draw(name, r):
    if name in ("Normal", "Cauchy", "Gumbel"):
        sc = lu(r, 1e-30, 1e30)
        loc = sgn(r) * lu(r, 1e-30, 1e30) if r.random() < 0.8 else 0.0
        if name == "Normal" and r.random() < 0.3:
            sc = -sc
        return [loc, sc]
    if name == "LogNormal":
        return [r.uniform(-20, 20), sgn(r) * lu(r, 1e-3, 5)]
    if name == "Exp":
        return [lu(r, 1e-30, 1e30)]
    if name == "Gamma":
        return [lu(r, 0.01, 1e5), lu(r, 1e-30, 1e30)]
    if name == "ChiSquared":
        return [lu(r, 0.02, 2e5)]
    if name == "StudentT":
        return [lu(r, 0.1, 1e5)]
    if name == "FisherF":
        return [lu(r, 0.1, 1e4), lu(r, 0.1, 1e4)]
    if name == "Beta":
        return [lu(r, 0.01, 1e4), lu(r, 0.01, 1e4)]
    if name == "Pert":
        mn = r.uniform(-10, 10)
        mx = mn + lu(r, 1e-3, 1e3)
        return [mn, mx, mn + (mx - mn) * r.choice((0.0, 1.0, r.random(), r.random())), r.choice((0.0, lu(r, 0.01, 100), 100.0))]
    if name == "Triangular":
        mn = r.uniform(-10, 10)
        mx = mn + lu(r, 1e-3, 1e3)
        return [mn, mx, mn + (mx - mn) * r.choice((0.0, 1.0, r.random(), r.random()))]
    if name == "Pareto":
        return [lu(r, 1e-30, 1e30), lu(r, 0.06, 1e4)]
    if name == "Weibull":
        return [lu(r, 1e-30, 1e30), lu(r, 0.006, 1e3)]
    if name == "Frechet":
        return [sgn(r) * lu(r, 1e-3, 1e3), lu(r, 1e-30, 1e30), lu(r, 0.06, 1e3)]
    if name == "SkewNormal":
        return [r.uniform(-5, 5), lu(r, 1e-3, 1e3), sgn(r) * lu(r, 1e-2, 1e3)]
    if name == "InverseGaussian":
        return [lu(r, 1e-3, 1e3), lu(r, 1e-3, 1e3)]
    if name == "Nig":
        a = lu(r, 1e-2, 1e2)
        return [a, a * r.choice((0.0, 0.99, -0.99, r.uniform(-0.99, 0.99), r.uniform(-0.99, 0.99)))]
    raise KeyError(name)


def job(args):
    import genref_cont as gc
    import mpmath as mp
    name, seed = args
    r = random.Random(seed)
    p = draw(name, r)
    ref, mk, supp, _ = gc.FAMILIES[name]
    lo, hi = supp(p)
    f15 = lambda x: tuple(float(v) for v in gc._low(ref, p, x))
    rows = []
    for _ in range(6):
        u = r.random()
        q = 10 ** (-r.uniform(0, 13))
        if u < 0.4:
            q = 1 - q if q < 0.5 else q
        elif u < 0.6:
            q = r.random()
        if not (0 < q < 1):
            continue
        x = gc.bisect_float(f15, q, lo, hi, iters=60)
        c, s = ref(p, x)
        rows.append((name, p, x, c, s))
    return rows


def main():
    n = int(sys.argv[1]) if len(sys.argv) > 1 else 20
    seed = int(sys.argv[2]) if len(sys.argv) > 2 else 1
    import genref_cont as gc
    import mpmath as mp
    jobs = [(name, seed * 100003 + i * 7919 + sum(map(ord, name))) for name in gc.FAMILIES for i in range(n)]
    with mproc.Pool(16) as pool:
        rows = [row for rows in pool.imap_unordered(job, jobs, chunksize=1) for row in rows]
    inp = "".join("C %s %r %s\n" % (nm, x, " ".join(repr(v) for v in p)) for nm, p, x, c, s in rows)
    out = subprocess.run([EVAL], input=inp, capture_output=True, text=True, check=True).stdout.split("\n")
    worst = {}
    nbad = 0
    for (nm, p, x, c, s), line in zip(rows, out):
        gcdf, gsf = [mp.mpf(v) for v in line.split()[:2]]
        for got, want, what in ((gcdf, c, "cdf"), (gsf, s, "sf")):
            err = abs(got - want)
            tol = mp.mpf("1e-12") + mp.mpf("1e-8") * want
            ratio = float(err / tol)
            w = worst.setdefault(nm, [0.0, 0.0, 0])
            w[0] = max(w[0], ratio)
            if want >= 1e-15:
                w[1] = max(w[1], float(err / want))
            w[2] += 1
            if err > tol:
                nbad += 1
                print("MISMATCH %s %s x=%r %s got %s want %s" % (nm, p, x, what, mp.nstr(got, 17), mp.nstr(want, 17)))
    print("%-16s %8s %12s %12s" % ("family", "values", "worst err/tol", "worst rel"))
    for nm in sorted(worst):
        print("%-16s %8d %12.3e %12.3e" % (nm, worst[nm][2], worst[nm][0], worst[nm][1]))
    print("mismatches:", nbad)
    sys.exit(1 if nbad else 0)


if __name__ == "__main__":
    main()
