#[test]
fn reference_tables() {
    match vorac::selftest() {
        Ok(s) => {
            println!("{s}");
            assert!(s.records > 1000, "too few reference records: {}", s.records);
        }
        Err(e) => panic!("{e}"),
    }
}

/// No NaN, values in [0,1], cdf+sf = 1, monotone in x -- on a grid that includes
/// the extreme floats, for every parameter set of the reference table.
#[test]
fn robustness_continuous() {
    use vorac::json::{self, Value};
    use vorac::Cont;
    let v = json::parse(vorac::REFS_CONT).unwrap();
    let mut laws: Vec<Cont> = Vec::new();
    let mut xs_of: Vec<Vec<f64>> = Vec::new();
    for rec in v.as_array().unwrap() {
        let fam = rec.get("family").unwrap().as_str().unwrap();
        let num = |v: &Value| -> f64 {
            match v {
                Value::Num(s) | Value::Str(s) => match s.as_str() {
                    "inf" => f64::INFINITY,
                    "-inf" => f64::NEG_INFINITY,
                    _ => s.parse().unwrap(),
                },
                _ => panic!(),
            }
        };
        let p: Vec<f64> = rec.get("params").unwrap().as_array().unwrap().iter().map(num).collect();
        let law = Cont::from_name(fam, &p).unwrap();
        let x = num(rec.get("x").unwrap());
        if laws.last() != Some(&law) {
            laws.push(law);
            xs_of.push(Vec::new());
        }
        xs_of.last_mut().unwrap().push(x);
    }
    let mut bad = Vec::new();
    for (law, rx) in laws.iter().zip(&xs_of) {
        let mut xs = rx.clone();
        for m in [0.0, 5e-324, f64::MIN_POSITIVE, 1e-300, 1e-100, 1e-30, 1e-10, 1e-3, 0.5, 1.0, 2.0, 10.0, 38.0, 40.0, 1e3, 1e10, 1e30, 1e100, 1e300, f64::MAX, f64::INFINITY] {
            xs.push(m);
            xs.push(-m);
        }
        // points between the reference abscissae
        for w in rx.windows(2) {
            xs.push(0.5 * w[0] + 0.5 * w[1]);
        }
        xs.sort_by(|a, b| a.partial_cmp(b).unwrap());
        let (mut pc, mut ps) = (0.0f64, 1.0f64);
        for &x in &xs {
            let (c, s) = law.cdf_sf(x);
            let pdf = law.pdf(x);
            let ok = c >= 0.0 && c <= 1.0 && s >= 0.0 && s <= 1.0 && (c + s - 1.0).abs() < 1e-9 && !(pdf < 0.0) && !pdf.is_nan();
            // monotone up to rounding noise of the two branches
            let mono = c >= pc - 1e-13 - 1e-9 * pc && s <= ps + 1e-13 + 1e-9 * ps;
            if !(ok && mono) && bad.len() < 30 {
                bad.push(format!("{law:?} x={x:e}: cdf={c:e} sf={s:e} pdf={pdf:e} (prev cdf {pc:e} sf {ps:e})"));
            }
            pc = c;
            ps = s;
        }
        let (lo, hi) = law.support();
        assert_eq!(law.cdf(f64::INFINITY), 1.0);
        assert_eq!(law.sf(f64::NEG_INFINITY), 1.0);
        if lo.is_finite() {
            assert_eq!(law.cdf(lo - lo.abs() * 1e-3 - 1e-300), 0.0, "{law:?}");
        }
        if hi.is_finite() {
            assert_eq!(law.sf(hi), 0.0, "{law:?}");
        }
        for q in [1e-12, 1e-6, 0.01, 0.3, 0.5, 0.9, 1.0 - 1e-9] {
            let x = law.quantile(q);
            let (c, s) = law.cdf_sf(x);
            let okq = if q <= 0.5 { c >= q * (1.0 - 1e-9) } else { s <= (1.0 - q) * (1.0 + 1e-9) };
            if !okq && bad.len() < 30 {
                bad.push(format!("{law:?} quantile({q}) = {x:e}: cdf={c:e} sf={s:e}"));
            }
        }
    }
    assert!(bad.is_empty(), "{}", bad.join("\n"));
}

/// Discrete laws: no NaN, range, cdf+sf = 1, monotone, quantile definition, pmf = cdf increments,
/// `table()` agrees with single calls -- including k near u64::MAX and huge parameters.
#[test]
fn robustness_discrete() {
    use vorac::{Disc, DiscTable};
    let p62 = 1u64 << 62;
    let laws = [
        Disc::Binomial { n: 1, p: 0.5 },
        Disc::Binomial { n: 20, p: 0.5 },
        Disc::Binomial { n: 1000, p: 0.01 },
        Disc::Binomial { n: 1_000_000, p: 0.5 },
        Disc::Binomial { n: 1_000_000, p: 1e-5 },
        Disc::Binomial { n: 100_000_000, p: 0.3 },
        Disc::Binomial { n: 3_000_000_000, p: 0.5 },
        Disc::Binomial { n: p62, p: 1e-18 },
        Disc::Binomial { n: p62, p: 0.3 },
        Disc::Binomial { n: p62, p: 1.0 - 1e-12 },
        Disc::Binomial { n: 1u64 << 63, p: 0.5 },
        Disc::Binomial { n: u64::MAX, p: 0.5 },
        Disc::Binomial { n: u64::MAX, p: 1e-19 },
        Disc::Binomial { n: u64::MAX, p: 0.999 },
        Disc::Binomial { n: 10, p: 0.0 },
        Disc::Binomial { n: 10, p: 1.0 },
        Disc::Poisson { lambda: 1e-3 },
        Disc::Poisson { lambda: 12.0 },
        Disc::Poisson { lambda: 1e6 },
        Disc::Poisson { lambda: 2.5e7 },
        Disc::Poisson { lambda: 1e15 },
        Disc::Poisson { lambda: 1.8e19 },
        Disc::Geometric { p: 1.0 },
        Disc::Geometric { p: 0.5 },
        Disc::Geometric { p: 1e-12 },
        Disc::Hypergeometric { total: 40, feature: 13, draws: 20 },
        Disc::Hypergeometric { total: 10, feature: 10, draws: 3 },
        Disc::Hypergeometric { total: 10, feature: 0, draws: 3 },
        Disc::Hypergeometric { total: 10, feature: 4, draws: 10 },
        Disc::Hypergeometric { total: 1_000_000, feature: 500_000, draws: 500_000 },
        Disc::Hypergeometric { total: 1 << 40, feature: 1 << 39, draws: 1 << 30 },
        Disc::Hypergeometric { total: 1 << 40, feature: 1 << 39, draws: 1 << 39 },
        Disc::Hypergeometric { total: 1 << 40, feature: (1 << 40) - 5, draws: (1 << 40) - 7 },
        Disc::Hypergeometric { total: 1 << 40, feature: 3, draws: 1 << 39 },
        Disc::Hypergeometric { total: u64::MAX - 2, feature: 1 << 62, draws: 1 << 62 },
        Disc::Hypergeometric { total: u64::MAX, feature: u64::MAX - 1, draws: 5 },
        Disc::Zipf { n: 1, s: 0.0 },
        Disc::Zipf { n: 10, s: 1.0 },
        Disc::Zipf { n: 1_000_000, s: 0.5 },
        Disc::Zipf { n: 1_000_000_000_000_000, s: 0.0 },
        Disc::Zipf { n: 1_000_000_000_000_000, s: 1.0 },
        Disc::Zipf { n: 1_000_000_000_000_000, s: 20.0 },
        Disc::Zeta { s: 1.02 },
        Disc::Zeta { s: 2.0 },
        Disc::Zeta { s: 100.0 },
    ];
    let mut bad: Vec<String> = Vec::new();
    for law in laws {
        let (lo, hi) = law.support();
        let (mean, sd) = (law.mean(), law.sd());
        assert!(!mean.is_nan() && !sd.is_nan(), "{law:?} mean/sd NaN");
        let mut ks: Vec<u64> = vec![0, 1, 2, 3, 10, 1000, lo, hi, hi.saturating_sub(1), hi / 2, 1 << 53, 1 << 63, u64::MAX - 1, u64::MAX];
        for q in [1e-12, 1e-9, 1e-6, 1e-3, 0.1, 0.3, 0.5, 0.7, 0.9, 0.999, 1.0 - 1e-6, 1.0 - 1e-9, 1.0 - 1e-12] {
            let k = law.quantile(q);
            ks.extend([k.saturating_sub(1), k, k.saturating_add(1)]);
            // definition of the quantile: cdf(k) >= q and (k == lo or cdf(k-1) < q), up to the oracle's own accuracy
            let eb = law.err_bound() + 1e-13 + 2e-9 * q.min(1.0 - q);
            let ok = if q <= 0.5 { law.cdf(k) >= q - eb } else { law.sf(k) <= 1.0 - q + eb };
            let ok2 = k == lo || if q <= 0.5 { law.cdf(k - 1) < q + eb } else { law.sf(k - 1) > 1.0 - q - eb };
            // (an unbounded law whose quantile exceeds u64::MAX saturates there: Zeta with s close to 1)
            let saturated = k == u64::MAX && hi == u64::MAX;
            if !(ok && ok2) && !saturated {
                bad.push(format!("{law:?} quantile({q}) = {k}: cdf {:e} sf {:e}", law.cdf(k), law.sf(k)));
            }
        }
        ks.sort_unstable();
        ks.dedup();
        let eb = law.err_bound();
        let (mut pc, mut ps) = (0.0f64, 1.0f64);
        let table = law.table(&ks);
        let dt = DiscTable::new(&law, &ks);
        let teb = law.table_err_bound().max(eb);
        for (i, &k) in ks.iter().enumerate() {
            let (c, s) = law.cdf_sf(k);
            let pm = law.pmf(k);
            let ok = c >= 0.0 && c <= 1.0 && s >= 0.0 && s <= 1.0 && (c + s - 1.0).abs() < 1e-9 + 2.0 * eb && pm >= 0.0 && pm <= 1.0 + 1e-12;
            let slack = 2.0 * eb + 1e-13;
            let mono = c >= pc - slack - 1e-9 * pc && s <= ps + slack + 1e-9 * ps;
            let out = (k < lo && c == 0.0 && pm == 0.0) || (k >= hi && s == 0.0) || (k >= lo && k < hi) || hi == u64::MAX;
            // pmf consistent with the cdf increment
            let inc = if k > 0 && k >= lo && k <= hi {
                let (c0, s0) = if k == lo { (0.0, 1.0) } else { law.cdf_sf(k - 1) };
                let d = if c < 0.5 { c - c0 } else { s0 - s };
                (d - pm).abs() <= 4.0 * eb + 1e-13 + 1e-7 * pm
            } else {
                true
            };
            let (tc, ts) = table[i];
            let tab = (tc - c).abs() <= teb + eb + 1e-9 * c && (ts - s).abs() <= teb + eb + 1e-9 * s && dt.get(k) == Some((tc, ts));
            if !(ok && mono && out && inc && tab) && bad.len() < 40 {
                bad.push(format!(
                    "{law:?} k={k}: cdf={c:e} sf={s:e} pmf={pm:e} table=({tc:e},{ts:e}) prev=({pc:e},{ps:e}) [ok {ok} mono {mono} out {out} inc {inc} tab {tab}]"
                ));
            }
            pc = c;
            ps = s;
        }
    }
    assert!(bad.is_empty(), "{}", bad.join("\n"));
}
