#[test]
fn reference_tables() {
    match vorac::selftest() {
        Ok(s) => {
            println!("{s}");
            assert!(s.records > 1000, "too few reference records: {}", s.records);
        }
        Err(e) => panic!("{e}"),
    }
}

/// No NaN, values in [0,1], cdf+sf = 1, monotone in x -- on a grid that includes
/// the extreme floats, for every parameter set of the reference table.
#[test]
fn robustness_continuous() {
    use vorac::json::{self, Value};
    use vorac::Cont;
    let v = json::parse(vorac::REFS_CONT).unwrap();
    let mut laws: Vec<Cont> = Vec::new();
    let mut xs_of: Vec<Vec<f64>> = Vec::new();
    for rec in v.as_array().unwrap() {
        let fam = rec.get("family").unwrap().as_str().unwrap();
        let num = |v: &Value| -> f64 {
            match v {
                Value::Num(s) | Value::Str(s) => match s.as_str() {
                    "inf" => f64::INFINITY,
                    "-inf" => f64::NEG_INFINITY,
                    _ => s.parse().unwrap(),
                },
                _ => panic!(),
            }
        };
        let p: Vec<f64> = rec.get("params").unwrap().as_array().unwrap().iter().map(num).collect();
        let law = Cont::from_name(fam, &p).unwrap();
        let x = num(rec.get("x").unwrap());
        if laws.last() != Some(&law) {
            laws.push(law);
            xs_of.push(Vec::new());
        }
        xs_of.last_mut().unwrap().push(x);
    }
    let mut bad = Vec::new();
    for (law, rx) in laws.iter().zip(&xs_of) {
        let mut xs = rx.clone();
        for m in [0.0, 5e-324, f64::MIN_POSITIVE, 1e-300, 1e-100, 1e-30, 1e-10, 1e-3, 0.5, 1.0, 2.0, 10.0, 38.0, 40.0, 1e3, 1e10, 1e30, 1e100, 1e300, f64::MAX, f64::INFINITY] {
            xs.push(m);
            xs.push(-m);
        }
        // points between the reference abscissae
        for w in rx.windows(2) {
            xs.push(0.5 * w[0] + 0.5 * w[1]);
        }
        xs.sort_by(|a, b| a.partial_cmp(b).unwrap());
        let (mut pc, mut ps) = (0.0f64, 1.0f64);
        for &x in &xs {
            let (c, s) = law.cdf_sf(x);
            let pdf = law.pdf(x);
            let ok = c >= 0.0 && c <= 1.0 && s >= 0.0 && s <= 1.0 && (c + s - 1.0).abs() < 1e-9 && !(pdf < 0.0) && !pdf.is_nan();
            // monotone up to rounding noise of the two branches
            let mono = c >= pc - 1e-13 - 1e-9 * pc && s <= ps + 1e-13 + 1e-9 * ps;
            if !(ok && mono) && bad.len() < 30 {
                bad.push(format!("{law:?} x={x:e}: cdf={c:e} sf={s:e} pdf={pdf:e} (prev cdf {pc:e} sf {ps:e})"));
            }
            pc = c;
            ps = s;
        }
        let (lo, hi) = law.support();
        assert_eq!(law.cdf(f64::INFINITY), 1.0);
        assert_eq!(law.sf(f64::NEG_INFINITY), 1.0);
        if lo.is_finite() {
            assert_eq!(law.cdf(lo - lo.abs() * 1e-3 - 1e-300), 0.0, "{law:?}");
        }
        if hi.is_finite() {
            assert_eq!(law.sf(hi), 0.0, "{law:?}");
        }
        for q in [1e-12, 1e-6, 0.01, 0.3, 0.5, 0.9, 1.0 - 1e-9] {
            let x = law.quantile(q);
            let (c, s) = law.cdf_sf(x);
            let okq = if q <= 0.5 { c >= q * (1.0 - 1e-9) } else { s <= (1.0 - q) * (1.0 + 1e-9) };
            if !okq && bad.len() < 30 {
                bad.push(format!("{law:?} quantile({q}) = {x:e}: cdf={c:e} sf={s:e}"));
            }
        }
    }
    assert!(bad.is_empty(), "{}", bad.join("\n"));
}
