#[test]
fn reference_tables() {
    match vorac::selftest() {
        Ok(s) => {
            println!("{s}");
            assert!(s.records > 1000, "too few reference records: {}", s.records);
        }
        Err(e) => panic!("{e}"),
    }
}
