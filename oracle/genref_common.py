"""Shared helpers for gen_refs.py (run with python3-vt)."""
import math
import struct
import mpmath as mp

DPS = 50
mp.mp.dps = DPS

QLEVELS = [1e-9, 1e-6, 1e-4, 1e-2, 0.1, 0.3, 0.5, 0.7, 0.9, 0.99, 1 - 1e-4, 1 - 1e-6, 1 - 1e-9]


def M(x):
    """exact mpf of a python float / int"""
    if isinstance(x, int):
        return mp.mpf(x)
    return mp.mpf(x)


def fmt(v):
    """decimal string, 20 significant digits (f64 parse rounds correctly)"""
    v = mp.mpf(v)
    if v == 0:
        return "0"
    if abs(v) < mp.mpf(10) ** (-400):
        return "0"
    return mp.nstr(v, 20, min_fixed=0, max_fixed=0)


def fnum(x):
    """JSON token for a float parameter / abscissa (shortest round-trip repr)"""
    if isinstance(x, int):
        return '"%d"' % x
    if math.isinf(x):
        return '"inf"' if x > 0 else '"-inf"'
    return repr(float(x))


def f2ord(x):
    b = struct.unpack("<q", struct.pack("<d", x))[0]
    return b if b >= 0 else -(b & 0x7FFFFFFFFFFFFFFF)


def ord2f(o):
    if o >= 0:
        return struct.unpack("<d", struct.pack("<q", o))[0]
    return -struct.unpack("<d", struct.pack("<q", -o))[0]


def bisect_float(f_cdf_sf, q, lo, hi, iters=48):
    """some float x with cdf(x) ~ q (crude: `iters` bisection steps over ordered floats).
    f_cdf_sf(x) -> (cdf, sf) (any precision)."""
    lo = max(lo, -1.7e308)
    hi = min(hi, 1.7e308)
    ol, oh = f2ord(lo), f2ord(hi)
    for _ in range(iters):
        if oh - ol <= 1:
            break
        om = (ol + oh) // 2
        x = ord2f(om)
        c, s = f_cdf_sf(x)
        below = (c < q) if q <= 0.5 else (s > 1 - q)
        if below:
            ol = om
        else:
            oh = om
    return ord2f(oh)


def record_json(family, params, xkey, x, vals, loose=False):
    parts = ['"family":"%s"' % family,
             '"params":[%s]' % ",".join(fnum(p) for p in params),
             '"%s":%s' % (xkey, fnum(x))]
    for k, v in vals.items():
        parts.append('"%s":%s' % (k, fmt(v)))
    if loose:
        parts.append('"loose":true')
    return "{" + ",".join(parts) + "}"
