"""Continuous reference laws in mpmath (>= 40 digits).  scipy is used ONLY to pick abscissae
(ppf/isf starting points) and as a gross-error cross-check; every stored value is mpmath."""
import math
import mpmath as mp
import numpy as np
from scipy import stats
from genref_common import *

mpf = mp.mpf
INF = float("inf")


def _compl(c):
    return c, 1 - c


def ncs(z):
    if abs(z) > 1e8:  # exp(-5e15): far below anything representable in f64
        return (mpf(1), mpf(0)) if z > 0 else (mpf(0), mpf(1))
    return mp.ncdf(z), mp.ncdf(-z)


def e_neg(t):
    """(1 - exp(-t), exp(-t)) for t >= 0, safe for astronomically large t"""
    if t > 10 ** 6:   # exp(-1e6) ~ 1e-434295: zero for every f64 purpose
        return mpf(1), mpf(0)
    return -mp.expm1(-t), mp.exp(-t)


def pow_safe(logt):
    """exp(logt), clipped to [exp(-1e7), exp(1e7)] (far outside anything that matters)"""
    return mp.exp(max(min(logt, mpf(10) ** 7), -mpf(10) ** 7))


def quad_panels(f, pts):
    """sum of mp.quad over consecutive panels (each panel separately => robust for peaked f)"""
    tot = mpf(0)
    for a, b in zip(pts[:-1], pts[1:]):
        if b > a:
            tot += mp.quad(f, [a, b])
    return tot


# ---------------------------------------------------------------- reference cdf/sf
def ref_normal(p, x):
    return ncs((M(x) - M(p[0])) / abs(M(p[1])))


def ref_lognormal(p, x):
    if x <= 0:
        return mpf(0), mpf(1)
    return ncs((mp.log(M(x)) - M(p[0])) / abs(M(p[1])))


def ref_exp(p, x):
    return e_neg(M(p[0]) * M(x))


def _pos_series(ratio, tol_digits):
    """1 + r(0) + r(0) r(1) + ... for an eventually geometrically decreasing positive sequence"""
    tot = mpf(1)
    term = mpf(1)
    k = 0
    eps = mpf(10) ** (-tol_digits)
    while True:
        r = ratio(k)
        term *= r
        tot += term
        k += 1
        if r < 1 and term < eps * tot * (1 - r):
            return tot
        if k > 5_000_000:
            raise RuntimeError("series too long")


CHECK_QUAD = True


def _peak_panels(mode, width, lo, hi, a, b):
    """panel boundaries inside [a,b] clustered around `mode` with scale `width`, support [lo,hi]"""
    pts = {a, b}
    for k in (0.5, 1, 2, 3, 5, 8, 12, 18, 26, 40, 60, 100, 200, 500):
        for sgn in (-1, 1):
            q = mode + sgn * k * width
            if a < q < b:
                pts.add(q)
    if a < mode < b:
        pts.add(mode)
    return sorted(pts)


def _gamma_cs(a, t):
    """P(a,t), Q(a,t): P from the all-positive series  t^a e^-t/Gamma(a+1) sum t^k/(a+1)_k  (no cancellation),
    Q = 1 - P in 80+ digit arithmetic; spot-checked by direct quadrature of the density (a >= 1)."""
    if t <= 0:
        return mpf(0), mpf(1)
    if t > 1000 and t > 3 * a and t > a + 2000:
        return mpf(1), mpf(0)   # Q < exp(-800): zero for every f64 purpose
    with mp.workdps(DPS + 60):
        pre = mp.exp(a * mp.log(t) - t - mp.loggamma(a + 1))
        c = pre * _pos_series(lambda k: t / (a + 1 + k), DPS + 40)
        s = 1 - c
        if CHECK_QUAD and a >= 1 and s > mpf(10) ** (-60):
            lg = mp.loggamma(a)
            f = lambda u: mp.exp((a - 1) * mp.log(u) - u - lg)
            mode, w = a - 1, mp.sqrt(a)
            top = max(t, mode) + 60 * w + 200
            pts = _peak_panels(mode, w, 0, mp.inf, t, top)
            with mp.workdps(40):
                s2 = quad_panels(f, pts)
            assert abs(s2 - s) < mpf(10) ** (-28) + mpf(10) ** (-25) * s, ("gamma quad check", a, t, s, s2)
        return +c, +s


def ref_gamma(p, x):
    return _gamma_cs(M(p[0]), M(x) / M(p[1]))


def ref_chi2(p, x):
    return _gamma_cs(M(p[0]) / 2, M(x) / 2)


def _ibeta_series(a, b, x, y):
    """I_x(a,b) = x^a y^b/(a B(a,b)) * 2F1(a+b,1;a+1;x): all-positive series, good for x below the mean"""
    pre = mp.exp(a * mp.log(x) + b * mp.log(y) + mp.loggamma(a + b) - mp.loggamma(a + 1) - mp.loggamma(b))
    return pre * _pos_series(lambda k: x * (a + b + k) / (a + 1 + k), DPS + 40)


def _beta_cs(a, b, x, y):
    """(I_x(a,b), 1-I) with x + y = 1 given exactly as mpf.  The side below the mean is summed directly
    (positive series, 110-digit arithmetic), the other is its complement.  Cross-checks: direct quadrature
    of the density when min(a,b) >= 1, mpmath's own betainc when the parameters are small."""
    if x <= 0:
        return mpf(0), mpf(1)
    if y <= 0:
        return mpf(1), mpf(0)
    with mp.workdps(DPS + 60):
        def nterms(a_, b_, x_, y_):
            hump = max(mpf(0), (x_ * (a_ + b_) - a_ - 1) / y_)
            return hump + 22 * mp.sqrt((a_ + hump) / y_) + 250 / (-mp.log1p(-y_)) if y_ < 1 else mpf(0)
        if nterms(a, b, x, y) <= nterms(b, a, y, x):
            c = _ibeta_series(a, b, x, y)
            s = 1 - c
        else:
            s = _ibeta_series(b, a, y, x)
            c = 1 - s
        small = min(c, s)
        if CHECK_QUAD and min(a, b) >= 1 and small > mpf(10) ** (-60):
            lb = mp.loggamma(a + b) - mp.loggamma(a) - mp.loggamma(b)
            f = lambda u: mp.exp((a - 1) * mp.log(u) + (b - 1) * mp.log(1 - u) + lb) if 0 < u < 1 else mpf(0)
            mode = (a - 1) / (a + b - 2) if a + b > 2 else mpf(1) / 2
            w = mp.sqrt(a * b / ((a + b) ** 2 * (a + b + 1)))
            with mp.workdps(40):
                if c <= s:
                    v = quad_panels(f, _peak_panels(mode, w, 0, 1, mpf(0), x))
                else:
                    v = quad_panels(f, _peak_panels(mode, w, 0, 1, x, mpf(1)))
            assert abs(v - small) < mpf(10) ** (-28) + mpf(10) ** (-25) * small, ("beta quad check", a, b, x, small, v)
        elif CHECK_QUAD and max(a, b) <= 50:
            if x <= y:
                v, ref_v = mp.betainc(a, b, 0, x, regularized=True), c
            else:
                v, ref_v = mp.betainc(b, a, 0, y, regularized=True), s
            assert abs(v - ref_v) < mpf(10) ** (-40), ("betainc check", a, b, x, ref_v, v)
        return +c, +s


def ref_student(p, x):
    nu = M(p[0])
    t = M(x)
    if t == 0:
        return mpf(1) / 2, mpf(1) / 2
    xb = nu / (nu + t * t)
    yb = t * t / (nu + t * t)
    i, ic = _beta_cs(nu / 2, mpf(1) / 2, xb, yb)
    tail, body = i / 2, (1 + ic) / 2
    return (body, tail) if t > 0 else (tail, body)


def ref_fisher(p, x):
    m, n, xx = M(p[0]), M(p[1]), M(x)
    if xx <= 0:
        return mpf(0), mpf(1)
    return _beta_cs(m / 2, n / 2, m * xx / (m * xx + n), n / (m * xx + n))


def ref_beta(p, x):
    return _beta_cs(M(p[0]), M(p[1]), M(x), 1 - M(x))


def ref_pert(p, x):
    mn, mx, mode, sh = map(M, p)
    r = mx - mn
    a = 1 + sh * (mode - mn) / r
    b = 1 + sh * (mx - mode) / r
    return _beta_cs(a, b, (M(x) - mn) / r, (mx - M(x)) / r)


def ref_triangular(p, x):
    mn, mx, mode = map(M, p)
    xx = M(x)
    if xx <= mn:
        return mpf(0), mpf(1)
    if xx >= mx:
        return mpf(1), mpf(0)
    if xx < mode:
        return _compl((xx - mn) ** 2 / ((mx - mn) * (mode - mn)))
    s = (mx - xx) ** 2 / ((mx - mn) * (mx - mode))
    return 1 - s, s


def ref_cauchy(p, x):
    z = (M(x) - M(p[0])) / abs(M(p[1]))
    return mp.mpf(1) / 2 + mp.atan(z) / mp.pi, mp.mpf(1) / 2 - mp.atan(z) / mp.pi


def ref_pareto(p, x):
    sc, sh = M(p[0]), M(p[1])
    if x <= p[0]:
        return mpf(0), mpf(1)
    return e_neg(sh * mp.log(M(x) / sc))


def ref_weibull(p, x):
    sc, sh = M(p[0]), M(p[1])
    if x <= 0:
        return mpf(0), mpf(1)
    return e_neg(pow_safe(sh * mp.log(M(x) / sc)))


def ref_gumbel(p, x):
    c, s = e_neg(pow_safe(-(M(x) - M(p[0])) / M(p[1])))
    return s, c


def ref_frechet(p, x):
    z = (M(x) - M(p[0])) / M(p[1])
    if z <= 0:
        return mpf(0), mpf(1)
    c, s = e_neg(pow_safe(-M(p[2]) * mp.log(z)))
    return s, c


def ref_skewnormal(p, x):
    """integrate the density 2 phi(t) Phi(alpha t) on both sides of z (independent of Owen's T)"""
    z = (M(x) - M(p[0])) / M(p[1])
    al = M(p[2])
    if al == 0:
        return ncs(z)
    f = lambda t: 2 * mp.npdf(t) * ncs(al * t)[0]
    ia = 1 / abs(al)
    base = [mpf(v) for v in (-40, -20, -10, -6, -4, -3, -2, -1.5, -1, -0.5, 0, 0.5, 1, 1.5, 2, 3, 4, 6, 10, 20, 40)]
    fine = [s * k * ia for k in (0.5, 1, 2, 4, 8, 16, 40) for s in (-1, 1)]
    near = [z + s * k for k in (0.25, 1) for s in (-1, 1)]
    pts = sorted(set(base + fine + near + [z]))
    lo = [q for q in pts if q < z] + [z]
    hi = [z] + [q for q in pts if q > z]
    c = quad_panels(f, lo)
    s = quad_panels(f, hi)
    assert abs(c + s - 1) < mpf(10) ** (-(mp.mp.dps * 3 // 5)), ("skewnormal quad inconsistent", p, x, c + s - 1)
    return c, s


def ref_invgauss(p, x):
    mu, lam, xx = M(p[0]), M(p[1]), M(x)
    if xx <= 0:
        return mpf(0), mpf(1)
    with mp.workdps(DPS + 40):
        r = mp.sqrt(lam / xx)
        a = r * (xx / mu - 1)
        b = r * (xx / mu + 1)
        # for b > 1e8 (inside the envelope lam/mu <= 1e6) |a| ~ b and the term is exp(-a^2/2)/(b sqrt(2 pi)) = 0
        t2 = mp.exp(2 * lam / mu + mp.log(mp.ncdf(-b))) if b < 1e8 else mpf(0)
        ca, sa = ncs(a)
        c = ca + t2
        s = sa - t2
        return +c, +s


def ref_nig(p, x):
    """NIG(alpha,beta,mu=0,delta=1) as normal variance-mean mixture:
    F(x) = int_0^inf Phi((x - beta z)/sqrt z) f_IG(z; mean 1/gamma, shape 1) dz,  t = ln z, panel-wise tanh-sinh.
    (Bessel-K1 density quadrature `ref_nig_density` is used as an independent cross-check on a subset.)"""
    al, be, xx = M(p[0]), M(p[1]), M(x)
    ga = mp.sqrt((al - be) * (al + be))
    c0 = 1 / mp.sqrt(2 * mp.pi)

    def kern(t):
        eh = mp.exp(t / 2)
        q = ga * eh - 1 / eh
        return c0 * mp.exp(-t / 2 - q * q / 2), xx / eh - be * eh

    def fc(t):
        k, w = kern(t)
        return k * ncs(w)[0]

    def fs(t):
        k, w = kern(t)
        return k * ncs(w)[1]

    tlo = -2 * mp.log(45 + ga)
    thi = 2 * mp.log((45 + ga) / ga)
    n = int(mp.ceil((thi - tlo) / mpf("0.4")))
    pts = [tlo + (thi - tlo) * i / n for i in range(n + 1)]
    c = quad_panels(fc, pts)
    s = quad_panels(fs, pts)
    assert abs(c + s - 1) < mpf(10) ** (-(mp.mp.dps * 3 // 5)), ("nig quad inconsistent", p, x, c + s - 1)
    return c, s


def ref_nig_density(p, x, dps=22):
    """cdf/sf by integrating the Bessel-K1 density (independent of the mixture representation)"""
    with mp.workdps(dps):
        al, be, xx = M(p[0]), M(p[1]), M(x)
        ga = mp.sqrt((al - be) * (al + be))

        def f(t):
            r = mp.sqrt(1 + t * t)
            return al / (mp.pi * r) * mp.besselk(1, al * r) * mp.exp(ga + be * t)

        mean = be / ga
        sd = mp.sqrt(al * al / ga ** 3)
        core = [mean + s * k * sd for k in (0.5, 1, 2, 4, 8, 16, 40, 100, 400) for s in (-1, 1)]
        unit = [mpf(s * k) for k in (1, 3) for s in (-1, 1)]
        pts = sorted(set(core + unit + [mean, xx, mpf(0)]))
        lo = [-mp.inf] + [q for q in pts if q < xx] + [xx]
        hi = [xx] + [q for q in pts if q > xx] + [mp.inf]
        return quad_panels(f, lo), quad_panels(f, hi)


# ---------------------------------------------------------------- families: (ref fn, scipy dist maker, support, param sets)
def sp_pert(p):
    mn, mx, mode, sh = p
    r = mx - mn
    return stats.beta(1 + sh * (mode - mn) / r, 1 + sh * (mx - mode) / r, loc=mn, scale=r)


FAMILIES = {
    "Normal": (ref_normal, lambda p: stats.norm(p[0], abs(p[1])), lambda p: (-INF, INF), [
        [0.0, 1.0], [0.0, -1.0], [1e30, 1e-30], [-1e30, 1e30], [1e30, 1e30], [-1e30, 1e-30], [3.5, 1e-30],
        [0.0, 1e30], [-2.0, 0.5], [1e-30, 1e-30], [123.456, -7.0], [-1e6, 1e-3], [5.0, 2.0]]),
    "LogNormal": (ref_lognormal, lambda p: stats.lognorm(abs(p[1]), scale=math.exp(p[0])), lambda p: (0.0, INF), [
        [0.0, 1.0], [0.0, -1.0], [20.0, 5.0], [-20.0, 5.0], [20.0, 1e-3], [-20.0, 1e-3], [0.0, 5.0], [0.0, 1e-3],
        [1.0, 0.25], [-3.0, 2.0], [10.0, -0.5], [-20.0, -5.0], [0.5, 0.1]]),
    "Exp": (ref_exp, lambda p: stats.expon(scale=1 / p[0]), lambda p: (0.0, INF), [
        [1.0], [1e-30], [1e30], [0.5], [2.0], [1e-10], [1e10], [3.7], [1e-3], [1e3], [0.1], [123.0]]),
    "Gamma": (ref_gamma, lambda p: stats.gamma(p[0], scale=p[1]), lambda p: (0.0, INF), [
        [0.01, 1.0], [0.01, 1e30], [0.01, 1e-30], [1e5, 1.0], [1e5, 1e-30], [1e5, 1e30], [0.999, 1.0], [1.0, 1.0],
        [1.001, 1.0], [0.5, 2.0], [2.0, 0.5], [10.0, 3.0], [100.0, 1.0], [1000.0, 1e-3], [0.1, 1.0], [3e4, 2.0],
        [0.05, 7.0], [25.0, 1.0]]),
    "ChiSquared": (ref_chi2, lambda p: stats.chi2(p[0]), lambda p: (0.0, INF), [
        [0.02], [2e5], [1.0], [2.0], [3.0], [0.5], [10.0], [100.0], [1000.0], [1e4], [0.1], [5.5], [50.0], [7e4]]),
    "StudentT": (ref_student, lambda p: stats.t(p[0]), lambda p: (-INF, INF), [
        [0.1], [1e5], [1.0], [2.0], [0.5], [3.0], [5.0], [10.0], [30.0], [100.0], [1e3], [1e4], [0.25], [1.5], [4.0]]),
    "FisherF": (ref_fisher, lambda p: stats.f(p[0], p[1]), lambda p: (0.0, INF), [
        [0.1, 0.1], [0.1, 1e4], [1e4, 0.1], [1e4, 1e4], [1.0, 1.0], [2.0, 2.0], [1.0, 10.0], [10.0, 1.0], [2.0, 7.0],
        [7.0, 2.0], [5.0, 10.0], [100.0, 100.0], [3.0, 1e3], [1e3, 3.0], [0.5, 0.5], [20.0, 0.3]]),
    "Beta": (ref_beta, lambda p: stats.beta(p[0], p[1]), lambda p: (0.0, 1.0), [
        [0.01, 0.01], [0.01, 1e4], [1e4, 0.01], [1e4, 1e4], [1.0, 1.0], [0.5, 0.5], [2.0, 2.0], [0.1, 0.1], [1.0, 3.0],
        [3.0, 1.0], [0.5, 2.0], [2.0, 0.5], [10.0, 10.0], [100.0, 3.0], [3.0, 100.0], [1e3, 1e3], [0.01, 1.0],
        [1.0, 0.01], [5e3, 20.0], [0.3, 1e3], [1e4, 1.0], [50.0, 1e4]]),
    "Pert": (ref_pert, sp_pert, lambda p: (p[0], p[1]), [
        [0.0, 1.0, 0.5, 4.0], [0.0, 1.0, 0.5, 0.0], [0.0, 1.0, 0.0, 4.0], [0.0, 1.0, 1.0, 4.0], [0.0, 1.0, 0.25, 100.0],
        [0.0, 1.0, 0.0, 100.0], [0.0, 1.0, 1.0, 100.0], [-5.0, 10.0, 2.0, 4.0], [1e6, 2e6, 1.1e6, 10.0],
        [-1.0, 1.0, 0.0, 1.0], [0.0, 1e-3, 9e-4, 50.0], [-1e10, 1e10, 5e9, 0.5], [2.0, 3.0, 2.5, 100.0],
        [0.0, 1.0, 0.999, 30.0]]),
    "Triangular": (ref_triangular, lambda p: stats.triang((p[2] - p[0]) / (p[1] - p[0]), loc=p[0], scale=p[1] - p[0]),
                   lambda p: (p[0], p[1]), [
        [0.0, 1.0, 0.5], [0.0, 1.0, 0.0], [0.0, 1.0, 1.0], [-1.0, 1.0, 0.0], [-5.0, 10.0, 2.0], [1e30, 2e30, 1.5e30],
        [-1e-30, 1e-30, 0.0], [0.0, 1.0, 1e-9], [0.0, 1.0, 1 - 1e-9], [100.0, 101.0, 100.0], [100.0, 101.0, 101.0],
        [-3.0, -1.0, -2.5], [0.0, 1e6, 10.0]]),
    "Cauchy": (ref_cauchy, lambda p: stats.cauchy(p[0], abs(p[1])), lambda p: (-INF, INF), [
        [0.0, 1.0], [1e30, 1e-30], [-1e30, 1e30], [1e30, 1e30], [-1e30, 1e-30], [0.0, 1e-30], [0.0, 1e30], [3.0, 2.0],
        [-7.5, 0.01], [1e-30, 1.0], [100.0, 100.0], [0.5, 3.0]]),
    "Pareto": (ref_pareto, lambda p: stats.pareto(p[1], scale=p[0]), lambda p: (p[0], INF), [
        [1.0, 1.0], [1.0, 0.06], [1.0, 1e4], [1e-30, 0.06], [1e30, 1e4], [1e-30, 1e4], [1e30, 0.06], [2.0, 3.0],
        [0.5, 0.5], [10.0, 2.0], [1.0, 100.0], [3.0, 0.1], [1e5, 7.0]]),
    "Weibull": (ref_weibull, lambda p: stats.weibull_min(p[1], scale=p[0]), lambda p: (0.0, INF), [
        [1.0, 1.0], [1.0, 0.006], [1.0, 1e3], [1e-30, 0.006], [1e30, 1e3], [1e-30, 1e3], [1e30, 0.006], [2.0, 0.5],
        [0.5, 2.0], [1.0, 3.6], [10.0, 0.1], [3.0, 100.0], [1.0, 0.05]]),
    "Gumbel": (ref_gumbel, lambda p: stats.gumbel_r(p[0], p[1]), lambda p: (-INF, INF), [
        [0.0, 1.0], [1e30, 1e-30], [-1e30, 1e30], [1e30, 1e30], [-1e30, 1e-30], [0.0, 1e-30], [0.0, 1e30], [3.0, 2.0],
        [-7.5, 0.01], [1e-30, 1.0], [100.0, 100.0], [0.5, 3.0]]),
    "Frechet": (ref_frechet, lambda p: stats.invweibull(p[2], loc=p[0], scale=p[1]), lambda p: (p[0], INF), [
        [0.0, 1.0, 1.0], [0.0, 1.0, 0.06], [0.0, 1.0, 1e3], [1e30, 1e30, 0.06], [-1e30, 1e30, 1e3], [0.0, 1e-30, 0.06],
        [0.0, 1e-30, 1e3], [5.0, 2.0, 3.0], [-3.0, 0.5, 0.5], [0.0, 1e30, 2.0], [1.0, 1.0, 100.0], [0.0, 10.0, 0.1],
        [-1e5, 1e3, 7.0]]),
    "SkewNormal": (ref_skewnormal, lambda p: stats.skewnorm(p[2], p[0], p[1]), lambda p: (-INF, INF), [
        [0.0, 1.0, 0.0], [0.0, 1.0, 1.0], [0.0, 1.0, -1.0], [0.0, 1.0, 1e3], [0.0, 1.0, -1e3], [0.0, 1.0, 0.5],
        [0.0, 1.0, 3.0], [0.0, 1.0, -5.0], [0.0, 1.0, 30.0], [2.0, 3.0, 10.0], [-1e5, 1e-3, -2.0], [0.0, 1.0, 100.0],
        [1e10, 1e10, 0.1], [0.0, 1.0, 1.5], [0.0, 1.0, -300.0]]),
    "InverseGaussian": (ref_invgauss, lambda p: stats.invgauss(p[0] / p[1], scale=p[1]), lambda p: (0.0, INF), [
        [1.0, 1.0], [1e-3, 1e-3], [1e-3, 1e3], [1e3, 1e-3], [1e3, 1e3], [1.0, 1e-3], [1.0, 1e3], [1e-3, 1.0], [1e3, 1.0],
        [2.0, 5.0], [5.0, 2.0], [0.5, 10.0], [10.0, 0.5], [100.0, 3.0], [0.01, 0.3]]),
    "Nig": (ref_nig, lambda p: stats.norminvgauss(p[0], p[1]), lambda p: (-INF, INF), [
        [1.0, 0.0], [1e-2, 0.0], [1e2, 0.0], [1e-2, 0.99e-2], [1e-2, -0.99e-2], [1e2, 99.0], [1e2, -99.0], [1.0, -0.98],
        [1.0, 0.99], [2.0, 1.0], [5.0, -3.0], [0.1, 0.05], [10.0, 9.0], [30.0, -10.0], [0.3, 0.0], [1e2, -98.0]]),
}


def choose_xs(name, p):
    ref, mk, supp, _ = FAMILIES[name]
    lo, hi = supp(p)
    d = mk(p)
    xs = []
    f15 = lambda x: tuple(float(v) for v in _low(ref, p, x))
    for q in QLEVELS:
        try:
            with np.errstate(all="ignore"):
                x = float(d.ppf(q)) if q <= 0.5 else float(d.isf(1 - q))
        except Exception:
            x = float("nan")
        ok = math.isfinite(x) and lo <= x <= hi
        if ok:
            c, s = f15(x)
            v, t = (c, q) if q <= 0.5 else (s, 1 - q)
            ok = v > 0 and t / 30 < v < t * 30
        if not ok:
            x = bisect_float(f15, q, lo, hi)
        xs.append(x)
    for e in (lo, hi):
        if math.isfinite(e):
            xs.append(e)
    # a point just inside / outside finite support ends
    if math.isfinite(lo):
        xs.append(np.nextafter(lo, INF) if lo != 0 else 5e-324)
    return sorted(set(float(x) for x in xs))


def _low(ref, p, x):
    """cheap low-precision evaluation, used only for choosing abscissae (no cross-checks)"""
    global CHECK_QUAD
    old = CHECK_QUAD
    CHECK_QUAD = False
    try:
        with mp.workdps(20):
            return ref(p, x)
    finally:
        CHECK_QUAD = old


def gen_family(name):
    ref, mk, supp, plist = FAMILIES[name]
    out = []
    for p in plist:
        for x in choose_xs(name, p):
            c, s = ref(p, x)
            # gross-error cross-check against scipy (loose!)
            try:
                with np.errstate(all="ignore"):
                    d = mk(p)
                    sc, ss = float(d.cdf(x)), float(d.sf(x))
                for got, want, nm in ((sc, c, "cdf"), (ss, s, "sf")):
                    if math.isfinite(got) and want > 1e-12 and abs(got - float(want)) > 1e-6 * float(want) + 1e-10:
                        print("NOTE scipy differs: %s %s x=%r %s scipy=%r mp=%s" % (name, p, x, nm, got, mp.nstr(want, 15)))
            except Exception as e:  # scipy failing is not our problem
                pass
            out.append(record_json(name, p, "x", x, {"cdf": c, "sf": s}))
    return name, out
