#!/usr/bin/env python3-vt
"""Generate refs/cont.json and refs/disc.json (reference cdf/sf/pmf values for the `vorac` oracle).

Run:  python3-vt gen_refs.py [cont|disc|all] [--jobs N]

All stored values are computed with mpmath at >= 40 significant digits (working precision 50-110
digits; see genref_cont.py / genref_disc.py for the formula used per family and for the internal
consistency checks: two-sided quadrature sums to 1, positive series vs. density quadrature, direct
pmf summation for small parameters, mixture vs. Bessel-density integration for NIG).
scipy.stats is used ONLY to choose the abscissae (ppf/isf as starting points) and to print a NOTE when
scipy and mpmath disagree grossly (which so far always was a scipy tail inaccuracy).
Values are written as decimal strings with 20 significant digits; integer parameters and k as strings.
"""
import sys
import os
import time
import multiprocessing as mproc

HERE = os.path.dirname(os.path.abspath(__file__))
sys.path.insert(0, HERE)


def run_cont_job(name_idx):
    import genref_cont as gc
    name, idx = name_idx
    ref, mk, supp, plist = gc.FAMILIES[name]
    p = plist[idx]
    out = []
    xs = gc.choose_xs(name, p)
    for x in xs:
        c, s = ref(p, x)
        out.append(gc.record_json(name, p, "x", x, {"cdf": c, "sf": s}))
    if name == "Nig":
        # independent cross-check (Bessel K1 density) at three abscissae
        import mpmath as mp
        for x in (xs[1], xs[len(xs) // 2], xs[-2]):
            c, s = ref(p, x)
            c2, s2 = gc.ref_nig_density(p, x)
            assert abs(c - c2) < 1e-17 + 1e-14 * c and abs(s - s2) < 1e-17 + 1e-14 * s, ("NIG density check", p, x, c, c2, s, s2)
    return (name, idx), out


def run_disc_job(i):
    import genref_disc as gd
    fn, arg = gd.all_jobs()[i]
    t = time.time()
    out = fn(arg)
    return i, out, "%s%r %.1fs" % (fn.__name__, arg, time.time() - t)


def write(path, recs):
    with open(path, "w") as f:
        f.write("[\n")
        f.write(",\n".join(recs))
        f.write("\n]\n")
    print("wrote %s: %d records, %.1f kB" % (path, len(recs), os.path.getsize(path) / 1e3))


def main():
    what = sys.argv[1] if len(sys.argv) > 1 and not sys.argv[1].startswith("-") else "all"
    jobs = 16
    if "--jobs" in sys.argv:
        jobs = int(sys.argv[sys.argv.index("--jobs") + 1])
    os.makedirs(os.path.join(HERE, "refs"), exist_ok=True)
    with mproc.Pool(jobs) as pool:
        if what in ("cont", "all"):
            import genref_cont as gc
            todo = [(n, i) for n in gc.FAMILIES for i in range(len(gc.FAMILIES[n][3]))]
            res = {}
            t0 = time.time()
            for key, out in pool.imap_unordered(run_cont_job, todo):
                res[key] = out
                print("  [%5.0fs] %s %r: %d records" % (time.time() - t0, key[0], gc.FAMILIES[key[0]][3][key[1]], len(out)),
                      flush=True)
            recs = [r for key in todo for r in res[key]]
            write(os.path.join(HERE, "refs", "cont.json"), recs)
        if what in ("disc", "all"):
            import genref_disc as gd
            n = len(gd.all_jobs())
            res = {}
            t0 = time.time()
            for i, out, msg in pool.imap_unordered(run_disc_job, range(n)):
                res[i] = out
                print("  [%5.0fs] %s: %d records" % (time.time() - t0, msg, len(out)), flush=True)
            recs = [r for i in range(n) for r in res[i]]
            write(os.path.join(HERE, "refs", "disc.json"), recs)


if __name__ == "__main__":
    main()
