//! Discrete reference laws.

use crate::dhelp::*;
use crate::sf::*;

#[derive(Clone, Copy, Debug, PartialEq)]
pub enum Disc {
    Binomial { n: u64, p: f64 },
    Poisson { lambda: f64 },
    Geometric { p: f64 },
    Hypergeometric { total: u64, feature: u64, draws: u64 },
    Zipf { n: u64, s: f64 },
    Zeta { s: f64 },
}

/// Values of (cdf, sf) on a sorted list of k, computed in one sweep.
#[derive(Clone, Debug)]
pub struct DiscTable {
    pub ks: Vec<u64>,
    pub vals: Vec<(f64, f64)>,
    /// absolute error bound valid for the entries of this table
    pub err_bound: f64,
}

impl DiscTable {
    pub fn new(d: &Disc, ks: &[u64]) -> DiscTable {
        let mut ks: Vec<u64> = ks.to_vec();
        ks.sort_unstable();
        ks.dedup();
        let (vals, exact) = d.table_impl(&ks);
        DiscTable { ks, vals, err_bound: if exact { 1e-12 } else { d.err_bound() } }
    }
    /// (cdf, sf) at k if k was in the list
    pub fn get(&self, k: u64) -> Option<(f64, f64)> {
        self.ks.binary_search(&k).ok().map(|i| self.vals[i])
    }
}

struct Hyp {
    nn: u64, // N
    kk: u64, // K
    n: u64,  // draws
    lo: u64,
    hi: u64,
    lp: f64,
    lq: f64,
    p3: f64,
}
impl Hyp {
    fn new(nn: u64, kk: u64, n: u64) -> Hyp {
        let lo = (n as u128 + kk as u128).saturating_sub(nn as u128) as u64;
        let hi = n.min(kk);
        let p = n as f64 / nn as f64;
        let (lp, lq) = (p.ln(), ln_1p(-p));
        let p3 = binom_raw(n as f64, nn as f64, (nn - n) as f64, 0.0, n as f64, (nn - n) as f64, lp, lq);
        Hyp { nn, kk, n, lo, hi, lp, lq, p3 }
    }
    fn pmf(&self, x: u64) -> f64 {
        if x < self.lo || x > self.hi {
            return 0.0;
        }
        if self.lo == self.hi {
            return 1.0;
        }
        // d1 = K n / N - x
        let d1 = self.mean_minus(x);
        let (pp, qq) = (self.n as f64 / self.nn as f64, (self.nn - self.n) as f64 / self.nn as f64);
        let kf = self.kk as f64;
        let p1 = binom_raw(x as f64, kf, (self.kk - x) as f64, d1, kf * pp, kf * qq, self.lp, self.lq);
        let nk = self.nn - self.kk;
        let y = self.n - x;
        let nkf = nk as f64;
        let p2 = binom_raw(y as f64, nkf, (nk - y) as f64, -d1, nkf * pp, nkf * qq, self.lp, self.lq);
        p1 * p2 / self.p3
    }
    /// K n / N - x, exact numerator (i128) whenever the products fit
    fn mean_minus(&self, x: u64) -> f64 {
        if self.nn < (1u64 << 62) {
            let num = self.kk as i128 * self.n as i128 - x as i128 * self.nn as i128;
            num as f64 / self.nn as f64
        } else {
            self.kk as f64 * (self.n as f64 / self.nn as f64) - x as f64
        }
    }
    /// pmf(x+1)/pmf(x)
    #[inline]
    fn up(&self, x: u64) -> f64 {
        let a = (self.kk - x) as f64 * (self.n - x) as f64;
        let b = (x + 1) as f64 * (self.nn as i128 - self.kk as i128 - self.n as i128 + x as i128 + 1) as f64;
        a / b
    }
    fn moments(&self) -> (f64, f64, f64, f64) {
        let (nn, kk, n) = (self.nn as f64, self.kk as f64, self.n as f64);
        let mean = n * kk / nn;
        let var = if self.nn > 1 { n * (kk / nn) * ((nn - kk) / nn) * ((nn - n) / (nn - 1.0)) } else { 0.0 };
        let sd = var.sqrt();
        let prod = n * kk * (nn - kk) * (nn - n);
        let g1 = if prod > 0.0 && self.nn > 2 {
            (nn - 2.0 * kk) * (nn - 1.0).sqrt() * (nn - 2.0 * n) / (prod.sqrt() * (nn - 2.0))
        } else {
            0.0
        };
        let g2 = if prod > 0.0 && self.nn > 3 {
            ((nn - 1.0) * nn * nn * (nn * (nn + 1.0) - 6.0 * kk * (nn - kk) - 6.0 * n * (nn - n))
                + 6.0 * prod * (5.0 * nn - 6.0))
                / (prod * (nn - 2.0) * (nn - 3.0))
        } else {
            0.0
        };
        (mean, sd, g1, g2)
    }
}

struct Bin {
    n: u64,
    p: f64,
    lp: f64,
    lq: f64,
    odds: f64, // p/q
}
impl Bin {
    fn new(n: u64, p: f64) -> Bin {
        let q = 1.0 - p;
        let lp = if p > 0.5 { ln_1p(-q) } else { p.ln() };
        let lq = if p > 0.5 { q.ln() } else { ln_1p(-p) };
        Bin { n, p, lp, lq, odds: p / q }
    }
    fn pmf(&self, k: u64) -> f64 {
        if k > self.n {
            return 0.0;
        }
        if self.p <= 0.0 {
            return if k == 0 { 1.0 } else { 0.0 };
        }
        if self.p >= 1.0 {
            return if k == self.n { 1.0 } else { 0.0 };
        }
        let d = np_minus_k(self.n, self.p, k);
        let nf = self.n as f64;
        binom_raw(k as f64, nf, (self.n - k) as f64, d, nf * self.p, nf * (1.0 - self.p), self.lp, self.lq)
    }
    #[inline]
    fn up(&self, k: u64) -> f64 {
        (self.n - k) as f64 / (k + 1) as f64 * self.odds
    }
    fn sd(&self) -> f64 {
        (self.n as f64 * self.p * (1.0 - self.p)).sqrt()
    }
}

/// Generic lattice description used by the summation code.
trait Lattice {
    fn lo(&self) -> u64;
    fn hi(&self) -> u64;
    fn pmf_at(&self, k: u64) -> f64;
    fn ratio_up(&self, k: u64) -> f64; // pmf(k+1)/pmf(k), k < hi
    /// true if k+1 <= mode region, i.e. the lower tail P(X<=k) is the smaller one to sum
    fn below_center(&self, k: u64) -> bool;
    fn mean_sd(&self) -> (f64, f64);
}
impl Lattice for Bin {
    fn lo(&self) -> u64 {
        0
    }
    fn hi(&self) -> u64 {
        self.n
    }
    fn pmf_at(&self, k: u64) -> f64 {
        self.pmf(k)
    }
    fn ratio_up(&self, k: u64) -> f64 {
        self.up(k)
    }
    fn below_center(&self, k: u64) -> bool {
        np_minus_k(self.n, self.p, k) > 0.5
    }
    fn mean_sd(&self) -> (f64, f64) {
        (self.n as f64 * self.p, self.sd())
    }
}
impl Lattice for Hyp {
    fn lo(&self) -> u64 {
        self.lo
    }
    fn hi(&self) -> u64 {
        self.hi
    }
    fn pmf_at(&self, k: u64) -> f64 {
        self.pmf(k)
    }
    fn ratio_up(&self, k: u64) -> f64 {
        self.up(k)
    }
    fn below_center(&self, k: u64) -> bool {
        self.mean_minus(k) > 0.5
    }
    fn mean_sd(&self) -> (f64, f64) {
        let m = self.moments();
        (m.0, m.1)
    }
}

/// exact (cdf, sf) by summing the smaller tail outward from k
fn sum_tails<L: Lattice>(l: &L, k: u64) -> (f64, f64) {
    if k < l.lo() {
        return (0.0, 1.0);
    }
    if k >= l.hi() {
        return (1.0, 0.0);
    }
    if l.below_center(k) {
        // lower tail: k, k-1, ..., lo
        let t0 = l.pmf_at(k);
        let c = if t0 > 0.0 {
            geo_sum(t0, k - l.lo(), |i| 1.0 / l.ratio_up(k - i - 1)).min(1.0)
        } else {
            0.0
        };
        (c, 1.0 - c)
    } else {
        let t0 = l.pmf_at(k + 1);
        let s = if t0 > 0.0 {
            geo_sum(t0, l.hi() - (k + 1), |i| l.ratio_up(k + 1 + i)).min(1.0)
        } else {
            0.0
        };
        (1.0 - s, s)
    }
}

/// One-pass (two directions) sweep over the window of non-negligible mass.
fn sweep<L: Lattice>(l: &L, ks: &[u64]) -> Vec<(f64, f64)> {
    let (mean, sd) = l.mean_sd();
    // window: widen until the pmf at both edges is negligible (the pmf is unimodal)
    let (mut a, mut b) = (l.lo(), l.hi());
    for mult in [8.0, 10.0, 12.0, 16.0, 20.0, 26.0, 32.0, 39.0] {
        let w = mult * sd + 40.0;
        a = if mean - w <= l.lo() as f64 { l.lo() } else { (mean - w) as u64 };
        b = if mean + w >= l.hi() as f64 { l.hi() } else { ((mean + w) as u64).min(l.hi()) };
        let ea = a == l.lo() || l.pmf_at(a) < 1e-26;
        let eb = b == l.hi() || l.pmf_at(b) < 1e-26;
        if ea && eb {
            break;
        }
    }
    let mut out = vec![(0.0, 0.0); ks.len()];
    const ANCHOR: u64 = 4096;
    // upward pass: cdf
    {
        let mut idx = 0;
        while idx < ks.len() && ks[idx] < a {
            out[idx].0 = 0.0;
            idx += 1;
        }
        let mut j = a;
        let mut t = l.pmf_at(j);
        let (mut s, mut comp) = (0.0f64, 0.0f64);
        loop {
            // Neumaier summation
            let y = s + t;
            comp += if s >= t { (s - y) + t } else { (t - y) + s };
            s = y;
            while idx < ks.len() && ks[idx] == j {
                out[idx].0 = (s + comp).min(1.0);
                idx += 1;
            }
            if j == b || idx >= ks.len() {
                break;
            }
            if (j - a + 1) % ANCHOR == 0 {
                t = l.pmf_at(j + 1);
            } else {
                t *= l.ratio_up(j);
            }
            j += 1;
        }
        while idx < ks.len() {
            out[idx].0 = 1.0;
            idx += 1;
        }
    }
    // downward pass: sf(k) = sum_{j>k} pmf(j)
    {
        let mut idx = ks.len();
        while idx > 0 && ks[idx - 1] >= b {
            out[idx - 1].1 = 0.0;
            idx -= 1;
        }
        let mut j = b;
        let mut t = l.pmf_at(j);
        let (mut s, mut comp) = (0.0f64, 0.0f64);
        loop {
            let y = s + t;
            comp += if s >= t { (s - y) + t } else { (t - y) + s };
            s = y;
            // now s = sum_{i >= j} pmf(i) = sf(j-1)
            while idx > 0 && j > 0 && ks[idx - 1] == j - 1 {
                out[idx - 1].1 = (s + comp).min(1.0);
                idx -= 1;
            }
            if j == a || idx == 0 {
                break;
            }
            if (b - j + 1) % ANCHOR == 0 {
                t = l.pmf_at(j - 1);
            } else {
                t /= l.ratio_up(j - 1);
            }
            j -= 1;
        }
        while idx > 0 {
            out[idx - 1].1 = 1.0;
            idx -= 1;
        }
    }
    out
}

impl Disc {
    pub fn name(&self) -> &'static str {
        match self {
            Disc::Binomial { .. } => "Binomial",
            Disc::Poisson { .. } => "Poisson",
            Disc::Geometric { .. } => "Geometric",
            Disc::Hypergeometric { .. } => "Hypergeometric",
            Disc::Zipf { .. } => "Zipf",
            Disc::Zeta { .. } => "Zeta",
        }
    }

    /// Build from a family name and parameter list (order as in the enum; integers passed as f64).
    pub fn from_name(name: &str, p: &[f64]) -> Option<Disc> {
        let g = |i: usize| p.get(i).copied();
        let u = |i: usize| p.get(i).map(|v| *v as u64);
        Some(match name {
            "Binomial" => Disc::Binomial { n: u(0)?, p: g(1)? },
            "Poisson" => Disc::Poisson { lambda: g(0)? },
            "Geometric" => Disc::Geometric { p: g(0)? },
            "Hypergeometric" => Disc::Hypergeometric { total: u(0)?, feature: u(1)?, draws: u(2)? },
            "Zipf" => Disc::Zipf { n: u(0)?, s: g(1)? },
            "Zeta" => Disc::Zeta { s: g(0)? },
            _ => return None,
        })
    }

    pub fn support(&self) -> (u64, u64) {
        match *self {
            Disc::Binomial { n, .. } => (0, n),
            Disc::Poisson { .. } | Disc::Geometric { .. } => (0, u64::MAX),
            Disc::Hypergeometric { total, feature, draws } => {
                let h = Hyp::new(total, feature, draws);
                (h.lo, h.hi)
            }
            Disc::Zipf { n, .. } => (1, n),
            Disc::Zeta { .. } => (1, u64::MAX),
        }
    }

    pub fn pmf(&self, k: u64) -> f64 {
        match *self {
            Disc::Binomial { n, p } => Bin::new(n, p).pmf(k),
            Disc::Poisson { lambda } => {
                if k == 0 {
                    (-lambda).exp()
                } else {
                    gamma_prefix(k as f64, lambda, pois_diff(lambda, k))
                }
            }
            Disc::Geometric { p } => {
                if p >= 1.0 {
                    return if k == 0 { 1.0 } else { 0.0 };
                }
                p * (k as f64 * ln_1p(-p)).exp()
            }
            Disc::Hypergeometric { total, feature, draws } => Hyp::new(total, feature, draws).pmf(k),
            Disc::Zipf { n, s } => {
                if k < 1 || k > n {
                    return 0.0;
                }
                (-s * (k as f64).ln()).exp() / hsum(1, n, s)
            }
            Disc::Zeta { s } => {
                if k < 1 {
                    return 0.0;
                }
                (-s * (k as f64).ln()).exp() / hurwitz(1, s)
            }
        }
    }

    /// (P(X <= k), P(X > k))
    pub fn cdf_sf(&self, k: u64) -> (f64, f64) {
        match *self {
            Disc::Binomial { n, p } => {
                if k >= n {
                    return (1.0, 0.0);
                }
                if p <= 0.0 {
                    return (1.0, 0.0);
                }
                if p >= 1.0 {
                    return (0.0, 1.0);
                }
                let b = Bin::new(n, p);
                let sd = b.sd();
                if sd <= SD_SUM_MAX {
                    sum_tails(&b, k)
                } else {
                    let d = np_minus_k(n, p, k);
                    let z = (0.5 - d) / sd;
                    let q = 1.0 - p;
                    edgeworth(z, sd, (q - p) / sd, (1.0 - 6.0 * p * q) / (sd * sd))
                }
            }
            Disc::Poisson { lambda } => {
                if !(lambda > 0.0) {
                    return (1.0, 0.0);
                }
                if k == u64::MAX {
                    return (1.0, 0.0);
                }
                let a = k as f64 + 1.0;
                let (pp, qq) = gamma_pq_d(a, lambda, pois_diff(lambda, k + 1));
                (qq, pp)
            }
            Disc::Geometric { p } => {
                if p >= 1.0 {
                    return (1.0, 0.0);
                }
                let e = (k as f64 + 1.0) * ln_1p(-p);
                (-exp_m1(e), e.exp())
            }
            Disc::Hypergeometric { total, feature, draws } => {
                let h = Hyp::new(total, feature, draws);
                if k < h.lo {
                    return (0.0, 1.0);
                }
                if k >= h.hi {
                    return (1.0, 0.0);
                }
                let (mean, sd, g1, g2) = h.moments();
                if sd <= SD_SUM_MAX {
                    sum_tails(&h, k)
                } else {
                    let _ = mean;
                    let z = (0.5 - h.mean_minus(k)) / sd;
                    edgeworth(z, sd, g1, g2)
                }
            }
            Disc::Zipf { n, s } => {
                if k < 1 {
                    return (0.0, 1.0);
                }
                if k >= n {
                    return (1.0, 0.0);
                }
                let lo = hsum(1, k, s);
                let hi = hsum(k + 1, n, s);
                let tot = lo + hi;
                (lo / tot, hi / tot)
            }
            Disc::Zeta { s } => {
                if k < 1 {
                    return (0.0, 1.0);
                }
                let lo = hsum(1, k, s);
                let hi = if k == u64::MAX { hurwitz_f(1.8446744073709552e19, s) } else { hurwitz(k + 1, s) };
                let tot = lo + hi;
                (lo / tot, hi / tot)
            }
        }
    }

    pub fn cdf(&self, k: u64) -> f64 {
        self.cdf_sf(k).0
    }
    pub fn sf(&self, k: u64) -> f64 {
        self.cdf_sf(k).1
    }

    pub fn mean(&self) -> f64 {
        match *self {
            Disc::Binomial { n, p } => n as f64 * p,
            Disc::Poisson { lambda } => lambda,
            Disc::Geometric { p } => (1.0 - p) / p,
            Disc::Hypergeometric { total, feature, draws } => draws as f64 * feature as f64 / total as f64,
            Disc::Zipf { n, s } => hsum(1, n, s - 1.0) / hsum(1, n, s),
            Disc::Zeta { s } => {
                if s > 2.0 {
                    hurwitz(1, s - 1.0) / hurwitz(1, s)
                } else {
                    f64::INFINITY
                }
            }
        }
    }

    pub fn sd(&self) -> f64 {
        match *self {
            Disc::Binomial { n, p } => (n as f64 * p * (1.0 - p)).sqrt(),
            Disc::Poisson { lambda } => lambda.sqrt(),
            Disc::Geometric { p } => (1.0 - p).sqrt() / p,
            Disc::Hypergeometric { total, feature, draws } => Hyp::new(total, feature, draws).moments().1,
            Disc::Zipf { n, s } => {
                let h = hsum(1, n, s);
                let m1 = hsum(1, n, s - 1.0) / h;
                let m2 = hsum(1, n, s - 2.0) / h;
                (m2 - m1 * m1).max(0.0).sqrt()
            }
            Disc::Zeta { s } => {
                if s > 3.0 {
                    let h = hurwitz(1, s);
                    let m1 = hurwitz(1, s - 1.0) / h;
                    let m2 = hurwitz(1, s - 2.0) / h;
                    (m2 - m1 * m1).max(0.0).sqrt()
                } else {
                    f64::INFINITY
                }
            }
        }
    }

    /// smallest k with cdf(k) >= p
    pub fn quantile(&self, p: f64) -> u64 {
        let (slo, shi) = self.support();
        if !(p > 0.0) {
            return slo;
        }
        let ok = |k: u64| -> bool {
            let (c, s) = self.cdf_sf(k);
            if p <= 0.5 {
                c >= p
            } else {
                s <= 1.0 - p
            }
        };
        if ok(slo) {
            return slo;
        }
        if !ok(shi) {
            return shi;
        }
        // invariant: !ok(lo), ok(hi).  Bracket around the mean first: evaluating the cdf at
        // the far end of a huge support can be very slow (and is pointless).
        let (mut lo, mut hi) = (slo, shi);
        let (mean, sd) = (self.mean(), self.sd());
        if mean.is_finite() && sd.is_finite() {
            let mut span = 50.0 * sd + 50.0;
            for _ in 0..64 {
                let cand = mean + span;
                if cand >= shi as f64 {
                    break;
                }
                let c = (cand as u64).max(slo);
                if ok(c) {
                    hi = c;
                    break;
                }
                lo = c;
                span *= 4.0;
            }
            let mut span = 50.0 * sd + 50.0;
            for _ in 0..64 {
                let cand = mean - span;
                if cand <= lo as f64 {
                    break;
                }
                let c = cand as u64;
                if c >= hi {
                    break;
                }
                if !ok(c) {
                    lo = c;
                    break;
                }
                hi = c;
                span *= 4.0;
            }
        }
        while hi - lo > 1 {
            let mid = lo + (hi - lo) / 2;
            if ok(mid) {
                hi = mid;
            } else {
                lo = mid;
            }
        }
        hi
    }

    /// Conservative bound on the absolute error of cdf()/sf() (single-k calls).
    pub fn err_bound(&self) -> f64 {
        match *self {
            Disc::Binomial { n, p } => {
                let sd = (n as f64 * p * (1.0 - p)).sqrt();
                if sd <= SD_SUM_MAX {
                    1e-12
                } else {
                    1e-12 + 1.0 / (sd * sd * sd)
                }
            }
            Disc::Hypergeometric { total, feature, draws } => {
                let (mean, sd, _, _) = Hyp::new(total, feature, draws).moments();
                // beyond 2^62 the centring K n / N - k is only computed in f64
                let centring = if total >= (1u64 << 62) && sd > 0.0 { 4.0 * f64::EPSILON * mean / sd } else { 0.0 };
                if sd <= SD_SUM_MAX {
                    1e-12 + centring
                } else {
                    1e-12 + 1.0 / (sd * sd * sd) + centring
                }
            }
            _ => 1e-12,
        }
    }

    fn table_impl(&self, ks: &[u64]) -> (Vec<(f64, f64)>, bool) {
        match *self {
            Disc::Binomial { n, p } if p > 0.0 && p < 1.0 => {
                let b = Bin::new(n, p);
                let sd = b.sd();
                if sd > 30.0 && sd <= SD_SWEEP_MAX {
                    return (sweep(&b, ks), true);
                }
            }
            Disc::Hypergeometric { total, feature, draws } => {
                let h = Hyp::new(total, feature, draws);
                let sd = h.moments().1;
                if sd > 30.0 && sd <= SD_SWEEP_MAX && h.lo < h.hi {
                    return (sweep(&h, ks), true);
                }
            }
            _ => {}
        }
        (ks.iter().map(|&k| self.cdf_sf(k)).collect(), self.err_bound() <= 1e-12)
    }

    /// (cdf, sf) for every k of a SORTED (ascending) list, evaluated in one sweep where that is
    /// cheaper/more exact than independent calls.
    pub fn table(&self, ks: &[u64]) -> Vec<(f64, f64)> {
        debug_assert!(ks.windows(2).all(|w| w[0] <= w[1]));
        self.table_impl(ks).0
    }

    /// error bound applying to `table()` results
    pub fn table_err_bound(&self) -> f64 {
        let exact = match *self {
            Disc::Binomial { n, p } => (n as f64 * p * (1.0 - p)).sqrt() <= SD_SWEEP_MAX,
            Disc::Hypergeometric { total, feature, draws } => {
                Hyp::new(total, feature, draws).moments().1 <= SD_SWEEP_MAX
            }
            _ => true,
        };
        if exact {
            1e-12
        } else {
            self.err_bound()
        }
    }
}

/// lambda - a  for integer a, exact when both are huge
fn pois_diff(lambda: f64, a: u64) -> f64 {
    if lambda >= 9.0e15 && lambda < 1.8e38 {
        (lambda as i128 - a as i128) as f64
    } else {
        lambda - a as f64
    }
}
