//! Quadrature helpers: Gauss-Legendre nodes (computed once), Owen's T and the
//! skew-normal tail integral, and a peak-centred trapezoid rule for
//! integrands that decay (at least) exponentially in both directions.

use crate::sf::*;
use std::f64::consts::PI;
use std::sync::OnceLock;

pub struct Gl {
    pub x: Vec<f64>, // nodes in (-1,1)
    pub w: Vec<f64>,
}

fn gl_make(n: usize) -> Gl {
    let mut x = vec![0.0; n];
    let mut w = vec![0.0; n];
    for i in 0..n {
        let mut z = (PI * (i as f64 + 0.75) / (n as f64 + 0.5)).cos();
        let mut dp = 1.0;
        for _ in 0..100 {
            let mut p0 = 1.0;
            let mut p1 = z;
            for k in 2..=n {
                let kf = k as f64;
                let p2 = ((2.0 * kf - 1.0) * z * p1 - (kf - 1.0) * p0) / kf;
                p0 = p1;
                p1 = p2;
            }
            dp = n as f64 * (z * p1 - p0) / (z * z - 1.0);
            let dz = p1 / dp;
            z -= dz;
            if dz.abs() < 1e-16 {
                // one more evaluation of dp at the converged z
                let mut q0 = 1.0;
                let mut q1 = z;
                for k in 2..=n {
                    let kf = k as f64;
                    let q2 = ((2.0 * kf - 1.0) * z * q1 - (kf - 1.0) * q0) / kf;
                    q0 = q1;
                    q1 = q2;
                }
                dp = n as f64 * (z * q1 - q0) / (z * z - 1.0);
                break;
            }
        }
        x[i] = z;
        w[i] = 2.0 / ((1.0 - z * z) * dp * dp);
    }
    Gl { x, w }
}

pub fn gl20() -> &'static Gl {
    static G: OnceLock<Gl> = OnceLock::new();
    G.get_or_init(|| gl_make(20))
}
pub fn gl32() -> &'static Gl {
    static G: OnceLock<Gl> = OnceLock::new();
    G.get_or_init(|| gl_make(32))
}

/// integral of f over [a,b] with the given rule
#[inline]
pub fn gl_int<F: Fn(f64) -> f64>(g: &Gl, a: f64, b: f64, f: F) -> f64 {
    let c = 0.5 * (a + b);
    let h = 0.5 * (b - a);
    let mut s = 0.0;
    for i in 0..g.x.len() {
        s += g.w[i] * f(c + h * g.x[i]);
    }
    s * h
}

/// Owen's T(h, a) for 0 <= a <= 1, h >= 0; relative accuracy (positive integrand).
fn owens_t_small_a(h: f64, a: f64) -> f64 {
    if a == 0.0 {
        return 0.0;
    }
    let hh = 0.5 * h * h;
    // integrand exp(-hh (1+x^2)) / (1+x^2) on [0,a]; beyond h x > 9.5 it is < e^-45 of its maximum
    let top = if h * a > 9.5 { 9.5 / h } else { a };
    let g = gl32();
    let f = |x: f64| {
        let q = 1.0 + x * x;
        (-hh * x * x).exp() / q
    };
    let s = if h * top > 4.0 {
        let m = 0.4 * top;
        gl_int(g, 0.0, m, f) + gl_int(g, m, top, f)
    } else {
        gl_int(g, 0.0, top, f)
    };
    s * (-hh).exp() / (2.0 * PI)
}

/// (1/2pi) * integral_a^inf exp(-h^2(1+x^2)/2)/(1+x^2) dx, for a >= 0, h > 0.
/// = T(h,inf) - T(h,a).  Positive integrand -> relative accuracy.
pub fn owens_t_compl(h: f64, a: f64) -> f64 {
    let h = h.abs();
    if h > 38.7 {
        return 0.0; // <= Phi(-h)/2 underflows
    }
    if a <= 1.0 && h * a < 0.7 {
        // T(h,a)/(Phi(-h)/2) <~ 0.8 h a : harmless cancellation
        return 0.5 * phi_cdf(-h) - owens_t_small_a(h, a);
    }
    if h * a < 0.7 {
        // substitution x = 1/u : (1/2pi) int_0^{1/a} exp(-h^2 (1+1/u^2)/2)/(1+u^2) du is awkward for
        // tiny h; use the identity instead (cancellation factor is harmless here).
        return t_identity_compl(h, a);
    }
    // dominant decay exp(-h^2 a v) with v = x - a ; scale delta = 1/(h^2 a) (<= 1/h, <= a/0.49)
    let delta = 1.0 / (h * h * a);
    let hh = 0.5 * h * h;
    let g = gl20();
    let f = |v: f64| {
        let x = a + v;
        (-hh * v * (2.0 * a + v)).exp() / (1.0 + x * x)
    };
    let cuts = [0.0, 1.5, 4.5, 10.0, 19.0, 31.0, 46.0];
    let mut s = 0.0;
    for k in 0..cuts.len() - 1 {
        s += gl_int(g, cuts[k] * delta, cuts[k + 1] * delta, f);
    }
    s * (-hh * (1.0 + a * a)).exp() / (2.0 * PI)
}

/// T(h,inf)-T(h,a) for a>1 via T(h,a) = [Phi(h)Phi(-ah)+Phi(ah)Phi(-h)]/2 - T(ah,1/a)
fn t_identity_compl(h: f64, a: f64) -> f64 {
    let ah = a * h;
    // Phi(-h)/2 - [..]/2 + T(ah,1/a) = [Phi(-h)Phi(-ah) - Phi(h)Phi(-ah)]/2 + T(ah,1/a)
    //  = -Phi(-ah) (Phi(h)-Phi(-h))/2 + T(ah, 1/a)
    let e = 0.5 * phi_cdf(-ah) * libm::erf(h * std::f64::consts::FRAC_1_SQRT_2);
    owens_t_small_a(ah, 1.0 / a) - e
}

/// Owen's T(h,a), any real h, a.  Relative accuracy ~1e-14.
pub fn owens_t(h: f64, a: f64) -> f64 {
    let h = h.abs();
    if h > 38.7 || a == 0.0 {
        return 0.0; // |T| <= Phi(-h)/2 underflows
    }
    let sgn = if a < 0.0 { -1.0 } else { 1.0 };
    let a = a.abs();
    if a <= 1.0 {
        return sgn * owens_t_small_a(h, a);
    }
    if a == f64::INFINITY {
        return sgn * 0.5 * phi_cdf(-h);
    }
    let ah = a * h;
    // T(h,a) = 1/2 Phi(h) Phi(-ah) + 1/2 Phi(ah) Phi(-h) - T(ah, 1/a)   (h>=0, a>0)
    let v = 0.5 * phi_cdf(h) * phi_cdf(-ah) + 0.5 * phi_cdf(ah) * phi_cdf(-h) - owens_t_small_a(ah, 1.0 / a);
    sgn * v.max(0.0)
}

/// Skew-normal (standard, shape alpha) cdf and sf at z, both with relative accuracy.
pub fn skew_normal_cdf_sf(z: f64, alpha: f64) -> (f64, f64) {
    if alpha == 0.0 {
        return (phi_cdf(z), phi_cdf(-z));
    }
    if alpha < 0.0 {
        let (c, s) = skew_normal_cdf_sf(-z, -alpha);
        return (s, c);
    }
    if z == f64::INFINITY {
        return (1.0, 0.0);
    }
    if z == f64::NEG_INFINITY {
        return (0.0, 1.0);
    }
    if z >= 0.0 {
        let t = owens_t(z, alpha);
        let s = phi_cdf(-z) + 2.0 * t;
        let c = phi_cdf(z) - 2.0 * t;
        (c.clamp(0.0, 1.0), s.clamp(0.0, 1.0))
    } else {
        // F = Phi(z) - 2T(z,alpha) = 2 [T(z,inf) - T(z,alpha)]
        let c = (2.0 * owens_t_compl(-z, alpha)).clamp(0.0, 1.0);
        (c, 1.0 - c)
    }
}

/// Integral over the real line of exp(logf(t)) where logf is (roughly) unimodal with
/// super-exponential decay.  `t0` is a point near the maximum, `h0` an initial step.
/// Returns the integral; relative accuracy ~1e-12 through step halving.
pub fn trap_peak<F: Fn(f64) -> f64>(logf: F, t0: f64, h0: f64) -> f64 {
    let l0 = logf(t0);
    if !(l0 > f64::NEG_INFINITY) {
        return 0.0;
    }
    // sum over t0 + k h, k integer, outward until negligible
    let side = |start: f64, step: f64, acc0: f64| -> f64 {
        let mut s = 0.0;
        let mut t = start;
        let mut small = 0;
        for _ in 0..200_000 {
            let v = (logf(t) - l0).exp();
            s += v;
            if v < 1e-18 * (acc0 + s) {
                small += 1;
                if small >= 3 {
                    break;
                }
            } else {
                small = 0;
            }
            t += step;
        }
        s
    };
    let mut h = h0;
    let mut sum = 1.0 + side(t0 + h, h, 1.0) + side(t0 - h, -h, 1.0);
    let mut est = sum * h;
    for _ in 0..12 {
        // add the mid points
        let add = side(t0 + 0.5 * h, h, sum) + side(t0 - 0.5 * h, -h, sum);
        sum += add;
        h *= 0.5;
        let new = sum * h;
        let done = (new - est).abs() <= 2e-13 * new.abs();
        est = new;
        if done {
            break;
        }
    }
    est * l0.exp()
}
