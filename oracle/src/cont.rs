//! Continuous reference laws.

use crate::quad::*;
use crate::sf::*;
use std::f64::consts::{FRAC_1_SQRT_2, PI};

#[derive(Clone, Copy, Debug, PartialEq)]
pub enum Cont {
    Normal { mean: f64, sd: f64 },
    LogNormal { mu: f64, sigma: f64 },
    Exp { lambda: f64 },
    Gamma { shape: f64, scale: f64 },
    ChiSquared { k: f64 },
    StudentT { nu: f64 },
    FisherF { m: f64, n: f64 },
    Beta { a: f64, b: f64 },
    Pert { min: f64, max: f64, mode: f64, shape: f64 },
    Triangular { min: f64, max: f64, mode: f64 },
    Cauchy { median: f64, scale: f64 },
    Pareto { scale: f64, shape: f64 },
    Weibull { scale: f64, shape: f64 },
    Gumbel { loc: f64, scale: f64 },
    Frechet { loc: f64, scale: f64, shape: f64 },
    SkewNormal { loc: f64, scale: f64, shape: f64 },
    InverseGaussian { mean: f64, shape: f64 },
    Nig { alpha: f64, beta: f64 },
}

#[inline]
fn norm_cs(z: f64) -> (f64, f64) {
    (phi_cdf(z), phi_cdf(-z))
}

/// ln(x/s) with the x ~ s case handled through log1p (x, s > 0)
#[inline]
fn ln_ratio(x: f64, s: f64) -> f64 {
    if x < 2.0 * s && x > 0.5 * s {
        ln_1p((x - s) / s)
    } else {
        let r = x / s;
        if r < 1e-290 || r > 1e290 {
            x.ln() - s.ln()
        } else {
            r.ln()
        }
    }
}

fn student_cs(t: f64, nu: f64) -> (f64, f64) {
    if t == 0.0 {
        return (0.5, 0.5);
    }
    let at = t.abs();
    // xb = nu/(nu+t^2), yb = t^2/(nu+t^2)
    let (xb, yb) = if at > 1e150 {
        let r = (nu / at) / at;
        (r / (1.0 + r), 1.0 / (1.0 + r))
    } else {
        let t2 = at * at;
        (nu / (nu + t2), t2 / (nu + t2))
    };
    let (i, ic) = ibeta(0.5 * nu, 0.5, xb, yb);
    // upper tail = i/2 ; central half-mass = ic/2
    let tail = 0.5 * i;
    let body = 0.5 + 0.5 * ic;
    if t > 0.0 {
        (body, tail)
    } else {
        (tail, body)
    }
}

fn fisher_cs(x: f64, m: f64, n: f64) -> (f64, f64) {
    if !(x > 0.0) {
        return (0.0, 1.0);
    }
    if x == f64::INFINITY {
        return (1.0, 0.0);
    }
    let mx = m * x;
    let (xb, yb) = if mx.is_finite() {
        (mx / (mx + n), n / (mx + n))
    } else {
        let r = (n / m) / x;
        (1.0 / (1.0 + r), r / (1.0 + r))
    };
    ibeta(0.5 * m, 0.5 * n, xb, yb)
}

fn invgauss_cs(x: f64, mu: f64, lam: f64) -> (f64, f64) {
    if !(x > 0.0) {
        return (0.0, 1.0);
    }
    if x == f64::INFINITY {
        return (1.0, 0.0);
    }
    let r = (lam / x).sqrt();
    let a = r * ((x - mu) / mu);
    let b = r * (x / mu + 1.0);
    let ea = (-0.5 * a * a).exp();
    let bp = b * FRAC_1_SQRT_2;
    if a <= 0.0 {
        let c = (phi_cdf(a) + 0.5 * ea * erfcx(bp)).min(1.0);
        (c, 1.0 - c)
    } else {
        let ap = a * FRAC_1_SQRT_2;
        let diff = if bp < 2.0 * ap {
            // erfcx(a') - erfcx(b') = (2/sqrt(pi)) int_{a'}^{b'} (1 - sqrt(pi) t erfcx(t)) dt
            2.0 / SQRT_PI * gl_int(gl20(), ap, bp, one_minus_sqrtpi_t_erfcx)
        } else {
            erfcx(ap) - erfcx(bp)
        };
        let s = (0.5 * ea * diff).clamp(0.0, 1.0);
        (1.0 - s, s)
    }
}

struct NigK {
    x: f64,
    beta: f64,
    gamma: f64,
}
impl NigK {
    #[inline]
    fn base(&self, t: f64) -> (f64, f64) {
        let eh = (0.5 * t).exp();
        let w = self.x / eh - self.beta * eh;
        let q = self.gamma * eh - 1.0 / eh;
        (w, -0.5 * t - LN_SQRT_2PI - 0.5 * q * q)
    }
    /// log of Phi(sign*w) * IG kernel
    fn log_cdf(&self, t: f64, sign: f64) -> f64 {
        let (w, l) = self.base(t);
        let w = sign * w;
        let lp = if w > -1.0 {
            phi_cdf(w).ln()
        } else {
            -0.5 * w * w + (0.5 * erfcx(-w * FRAC_1_SQRT_2)).ln()
        };
        l + lp
    }
    fn log_pdf(&self, t: f64) -> f64 {
        let (w, l) = self.base(t);
        l - 0.5 * w * w - LN_SQRT_2PI - 0.5 * t
    }
    fn integrate<F: Fn(f64) -> f64>(&self, f: F) -> f64 {
        let g = self.gamma;
        let mut lo = -2.0 * (42.0 + g).ln();
        let mut hi = 2.0 * ((42.0 + g) / g).ln();
        // golden section for the maximum of f
        let r = 0.618_033_988_749_894_9;
        let mut c = hi - r * (hi - lo);
        let mut d = lo + r * (hi - lo);
        let mut fc = f(c);
        let mut fd = f(d);
        for _ in 0..22 {
            if fc > fd {
                hi = d;
                d = c;
                fd = fc;
                c = hi - r * (hi - lo);
                fc = f(c);
            } else {
                lo = c;
                c = d;
                fc = fd;
                d = lo + r * (hi - lo);
                fd = f(d);
            }
        }
        let t0 = 0.5 * (lo + hi);
        let f0 = f(t0);
        if !(f0 > -740.0) {
            // the bracket holds every contribution above 1e-365; its maximum underflows => 0
            return 0.0;
        }
        let dd = 0.02;
        let curv = -(f(t0 + dd) - 2.0 * f0 + f(t0 - dd)) / (dd * dd);
        let sig = if curv > 1e-4 { 1.0 / curv.sqrt() } else { 100.0 };
        let h0 = (0.7 * sig).min(0.4);
        trap_peak(f, t0, h0)
    }
}

fn nig_cs(x: f64, alpha: f64, beta: f64) -> (f64, f64) {
    if x == f64::INFINITY {
        return (1.0, 0.0);
    }
    if x == f64::NEG_INFINITY {
        return (0.0, 1.0);
    }
    let gamma = ((alpha - beta) * (alpha + beta)).sqrt();
    let k = NigK { x, beta, gamma };
    let c = k.integrate(|t| k.log_cdf(t, 1.0));
    if c < 0.5 {
        // compute the other side directly only when it is the small one
        (c, 1.0 - c)
    } else {
        let s = k.integrate(|t| k.log_cdf(t, -1.0));
        (1.0 - s, s)
    }
}

impl Cont {
    /// (cdf, sf) computed together.
    pub fn cdf_sf(&self, x: f64) -> (f64, f64) {
        if x.is_nan() {
            return (f64::NAN, f64::NAN);
        }
        let (lo, hi) = self.support();
        if x < lo {
            return (0.0, 1.0);
        }
        if x >= hi {
            return (1.0, 0.0);
        }
        let (c, s) = self.cdf_sf_inner(x);
        (c.clamp(0.0, 1.0), s.clamp(0.0, 1.0))
    }

    fn cdf_sf_inner(&self, x: f64) -> (f64, f64) {
        match *self {
            Cont::Normal { mean, sd } => norm_cs((x - mean) / sd.abs()),
            Cont::LogNormal { mu, sigma } => {
                if x <= 0.0 {
                    return (0.0, 1.0);
                }
                norm_cs((x.ln() - mu) / sigma.abs())
            }
            Cont::Exp { lambda } => {
                let t = lambda * x;
                if t <= 0.0 {
                    return (0.0, 1.0);
                }
                (-exp_m1(-t), (-t).exp())
            }
            Cont::Gamma { shape, scale } => gamma_pq_scaled(shape, x, scale),
            Cont::ChiSquared { k } => gamma_pq_scaled(0.5 * k, x, 2.0),
            Cont::StudentT { nu } => student_cs(x, nu),
            Cont::FisherF { m, n } => fisher_cs(x, m, n),
            Cont::Beta { a, b } => ibeta(a, b, x, 1.0 - x),
            Cont::Pert { min, max, .. } => {
                let (a, b) = self.pert_ab();
                let r = max - min;
                ibeta(a, b, (x - min) / r, (max - x) / r)
            }
            Cont::Triangular { min, max, mode } => {
                let r = max - min;
                // both values as sums of positive terms (no 1 - small cancellation)
                if x < mode {
                    let c = (x - min) * (x - min) / (r * (mode - min));
                    let s = (max - mode) / r + (mode - x) * ((x - min) + (mode - min)) / (r * (mode - min));
                    (c, s)
                } else {
                    let s = (max - x) * (max - x) / (r * (max - mode));
                    let c = (mode - min) / r + (x - mode) * ((max - mode) + (max - x)) / (r * (max - mode));
                    (c, s)
                }
            }
            Cont::Cauchy { median, scale } => {
                let z = (x - median) / scale.abs();
                (libm::atan2(1.0, -z) / PI, libm::atan2(1.0, z) / PI)
            }
            Cont::Pareto { scale, shape } => {
                let l = shape * ln_ratio(x, scale);
                if l <= 0.0 {
                    return (0.0, 1.0);
                }
                (-exp_m1(-l), (-l).exp())
            }
            Cont::Weibull { scale, shape } => {
                if x <= 0.0 {
                    return (0.0, 1.0);
                }
                let t = (shape * ln_ratio(x, scale)).exp();
                (-exp_m1(-t), (-t).exp())
            }
            Cont::Gumbel { loc, scale } => {
                let e = (-(x - loc) / scale).exp();
                ((-e).exp(), -exp_m1(-e))
            }
            Cont::Frechet { loc, scale, shape } => {
                let z = (x - loc) / scale;
                if z <= 0.0 {
                    return (0.0, 1.0);
                }
                let t = (-shape * z.ln()).exp();
                ((-t).exp(), -exp_m1(-t))
            }
            Cont::SkewNormal { loc, scale, shape } => skew_normal_cdf_sf((x - loc) / scale, shape),
            Cont::InverseGaussian { mean, shape } => invgauss_cs(x, mean, shape),
            Cont::Nig { alpha, beta } => nig_cs(x, alpha, beta),
        }
    }

    fn pert_ab(&self) -> (f64, f64) {
        if let Cont::Pert { min, max, mode, shape } = *self {
            let r = max - min;
            (1.0 + shape * (mode - min) / r, 1.0 + shape * (max - mode) / r)
        } else {
            unreachable!()
        }
    }

    /// P(X <= x)
    pub fn cdf(&self, x: f64) -> f64 {
        self.cdf_sf(x).0
    }
    /// P(X > x)
    pub fn sf(&self, x: f64) -> f64 {
        self.cdf_sf(x).1
    }

    pub fn support(&self) -> (f64, f64) {
        const INF: f64 = f64::INFINITY;
        match *self {
            Cont::Normal { .. }
            | Cont::StudentT { .. }
            | Cont::Cauchy { .. }
            | Cont::Gumbel { .. }
            | Cont::SkewNormal { .. }
            | Cont::Nig { .. } => (-INF, INF),
            Cont::LogNormal { .. }
            | Cont::Exp { .. }
            | Cont::Gamma { .. }
            | Cont::ChiSquared { .. }
            | Cont::FisherF { .. }
            | Cont::Weibull { .. }
            | Cont::InverseGaussian { .. } => (0.0, INF),
            Cont::Beta { .. } => (0.0, 1.0),
            Cont::Pert { min, max, .. } | Cont::Triangular { min, max, .. } => (min, max),
            Cont::Pareto { scale, .. } => (scale, INF),
            Cont::Frechet { loc, .. } => (loc, INF),
        }
    }

    pub fn pdf(&self, x: f64) -> f64 {
        if x.is_nan() {
            return f64::NAN;
        }
        let (lo, hi) = self.support();
        if x < lo || x > hi || x.is_infinite() {
            return 0.0;
        }
        let beta_pdf = |a: f64, b: f64, u: f64, v: f64| -> f64 {
            if u <= 0.0 {
                return if a < 1.0 { f64::INFINITY } else if a == 1.0 { b } else { 0.0 };
            }
            if v <= 0.0 {
                return if b < 1.0 { f64::INFINITY } else if b == 1.0 { a } else { 0.0 };
            }
            beta_prefix(a, b, u, v) / (u * v)
        };
        let gamma_pdf = |a: f64, t: f64| -> f64 {
            if t <= 0.0 {
                return if a < 1.0 { f64::INFINITY } else if a == 1.0 { 1.0 } else { 0.0 };
            }
            gamma_prefix(a, t, t - a) * a / t
        };
        match *self {
            Cont::Normal { mean, sd } => phi_pdf((x - mean) / sd.abs()) / sd.abs(),
            Cont::LogNormal { mu, sigma } => {
                if x <= 0.0 {
                    return 0.0;
                }
                let z = (x.ln() - mu) / sigma.abs();
                (-0.5 * z * z - x.ln() - sigma.abs().ln() - LN_SQRT_2PI).exp()
            }
            Cont::Exp { lambda } => lambda * (-lambda * x).exp(),
            Cont::Gamma { shape, scale } => gamma_pdf(shape, x / scale) / scale,
            Cont::ChiSquared { k } => 0.5 * gamma_pdf(0.5 * k, 0.5 * x),
            Cont::StudentT { nu } => {
                let lc = ln_gamma(0.5 * (nu + 1.0)) - ln_gamma(0.5 * nu) - 0.5 * (nu * PI).ln();
                let l = if x.abs() > 1e150 {
                    2.0 * x.abs().ln() - nu.ln()
                } else {
                    ln_1p(x * x / nu)
                };
                (lc - 0.5 * (nu + 1.0) * l).exp()
            }
            Cont::FisherF { m, n } => {
                if x <= 0.0 {
                    return if m < 2.0 { f64::INFINITY } else if m == 2.0 { 1.0 } else { 0.0 };
                }
                let mx = m * x;
                beta_prefix(0.5 * m, 0.5 * n, mx / (mx + n), n / (mx + n)) / x
            }
            Cont::Beta { a, b } => beta_pdf(a, b, x, 1.0 - x),
            Cont::Pert { min, max, .. } => {
                let (a, b) = self.pert_ab();
                let r = max - min;
                beta_pdf(a, b, (x - min) / r, (max - x) / r) / r
            }
            Cont::Triangular { min, max, mode } => {
                let r = max - min;
                if x < mode {
                    2.0 * (x - min) / (r * (mode - min))
                } else if x > mode {
                    2.0 * (max - x) / (r * (max - mode))
                } else {
                    2.0 / r
                }
            }
            Cont::Cauchy { median, scale } => {
                let s = scale.abs();
                let z = (x - median) / s;
                1.0 / (PI * s * (1.0 + z * z))
            }
            Cont::Pareto { scale, shape } => (-(shape) * ln_ratio(x, scale)).exp() * shape / x,
            Cont::Weibull { scale, shape } => {
                if x <= 0.0 {
                    return if shape < 1.0 { f64::INFINITY } else if shape == 1.0 { 1.0 / scale } else { 0.0 };
                }
                let lt = shape * ln_ratio(x, scale);
                (shape.ln() - x.ln() + lt - lt.exp()).exp()
            }
            Cont::Gumbel { loc, scale } => {
                let z = (x - loc) / scale;
                let e = (-z).exp();
                if e == f64::INFINITY {
                    0.0
                } else {
                    (-z - e).exp() / scale
                }
            }
            Cont::Frechet { loc, scale, shape } => {
                let z = (x - loc) / scale;
                if z <= 0.0 {
                    return 0.0;
                }
                let lt = -shape * z.ln();
                (shape.ln() - z.ln() - scale.ln() + lt - lt.exp()).exp()
            }
            Cont::SkewNormal { loc, scale, shape } => {
                let z = (x - loc) / scale;
                2.0 / scale * phi_pdf(z) * phi_cdf(shape * z)
            }
            Cont::InverseGaussian { mean, shape } => {
                if x <= 0.0 {
                    return 0.0;
                }
                let d = (x - mean) / mean;
                (0.5 * (shape / (2.0 * PI)).ln() - 1.5 * x.ln() - 0.5 * shape * d * d / x).exp()
            }
            Cont::Nig { alpha, beta } => {
                let gamma = ((alpha - beta) * (alpha + beta)).sqrt();
                let k = NigK { x, beta, gamma };
                k.integrate(|t| k.log_pdf(t))
            }
        }
    }

    /// Some x with cdf(x) ~= p, by bisection over the ordered f64 bit patterns
    /// (cdf for p <= 0.5, sf otherwise), to 1e-13 relative or adjacent floats.
    pub fn quantile(&self, p: f64) -> f64 {
        let (slo, shi) = self.support();
        if !(p > 0.0) {
            return slo;
        }
        if !(p < 1.0) {
            return shi;
        }
        fn to_ord(x: f64) -> i64 {
            let b = x.to_bits();
            if b >> 63 == 0 {
                b as i64
            } else {
                -((b & 0x7fff_ffff_ffff_ffff) as i64)
            }
        }
        fn from_ord(o: i64) -> f64 {
            if o >= 0 {
                f64::from_bits(o as u64)
            } else {
                f64::from_bits((-o) as u64 | (1u64 << 63))
            }
        }
        let mut lo = slo.max(-f64::MAX);
        let mut hi = shi.min(f64::MAX);
        let q = 1.0 - p;
        loop {
            let (ol, oh) = (to_ord(lo) as i128, to_ord(hi) as i128);
            if oh - ol <= 1 {
                break;
            }
            if (lo > 0.0 || hi < 0.0) && (hi - lo) <= 1e-13 * lo.abs().max(hi.abs()) {
                break;
            }
            let mid = from_ord((ol + (oh - ol) / 2) as i64);
            let below = if p <= 0.5 { self.cdf(mid) < p } else { self.sf(mid) > q };
            if below {
                lo = mid;
            } else {
                hi = mid;
            }
        }
        hi
    }

    pub fn name(&self) -> &'static str {
        match self {
            Cont::Normal { .. } => "Normal",
            Cont::LogNormal { .. } => "LogNormal",
            Cont::Exp { .. } => "Exp",
            Cont::Gamma { .. } => "Gamma",
            Cont::ChiSquared { .. } => "ChiSquared",
            Cont::StudentT { .. } => "StudentT",
            Cont::FisherF { .. } => "FisherF",
            Cont::Beta { .. } => "Beta",
            Cont::Pert { .. } => "Pert",
            Cont::Triangular { .. } => "Triangular",
            Cont::Cauchy { .. } => "Cauchy",
            Cont::Pareto { .. } => "Pareto",
            Cont::Weibull { .. } => "Weibull",
            Cont::Gumbel { .. } => "Gumbel",
            Cont::Frechet { .. } => "Frechet",
            Cont::SkewNormal { .. } => "SkewNormal",
            Cont::InverseGaussian { .. } => "InverseGaussian",
            Cont::Nig { .. } => "Nig",
        }
    }

    /// Build from a family name and parameter list (order as in the enum).
    pub fn from_name(name: &str, p: &[f64]) -> Option<Cont> {
        let g = |i: usize| p.get(i).copied();
        Some(match name {
            "Normal" => Cont::Normal { mean: g(0)?, sd: g(1)? },
            "LogNormal" => Cont::LogNormal { mu: g(0)?, sigma: g(1)? },
            "Exp" => Cont::Exp { lambda: g(0)? },
            "Gamma" => Cont::Gamma { shape: g(0)?, scale: g(1)? },
            "ChiSquared" => Cont::ChiSquared { k: g(0)? },
            "StudentT" => Cont::StudentT { nu: g(0)? },
            "FisherF" => Cont::FisherF { m: g(0)?, n: g(1)? },
            "Beta" => Cont::Beta { a: g(0)?, b: g(1)? },
            "Pert" => Cont::Pert { min: g(0)?, max: g(1)?, mode: g(2)?, shape: g(3)? },
            "Triangular" => Cont::Triangular { min: g(0)?, max: g(1)?, mode: g(2)? },
            "Cauchy" => Cont::Cauchy { median: g(0)?, scale: g(1)? },
            "Pareto" => Cont::Pareto { scale: g(0)?, shape: g(1)? },
            "Weibull" => Cont::Weibull { scale: g(0)?, shape: g(1)? },
            "Gumbel" => Cont::Gumbel { loc: g(0)?, scale: g(1)? },
            "Frechet" => Cont::Frechet { loc: g(0)?, scale: g(1)?, shape: g(2)? },
            "SkewNormal" => Cont::SkewNormal { loc: g(0)?, scale: g(1)?, shape: g(2)? },
            "InverseGaussian" => Cont::InverseGaussian { mean: g(0)?, shape: g(1)? },
            "Nig" => Cont::Nig { alpha: g(0)?, beta: g(1)? },
            _ => return None,
        })
    }
}
