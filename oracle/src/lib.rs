//! `vorac`: reference probability laws (cdf / sf / pmf oracles) for judging samplers.
//!
//! See README.md for formulas, measured accuracy and the validity envelope.

pub mod cont;
pub mod dhelp;
pub mod disc;
pub mod json;
pub mod quad;
pub mod sf;

pub use cont::Cont;
pub use disc::{Disc, DiscTable};

use json::Value;
use std::collections::BTreeMap;

pub const REFS_CONT: &str = include_str!("../refs/cont.json");
pub const REFS_DISC: &str = include_str!("../refs/disc.json");

#[derive(Clone, Debug, Default)]
pub struct FamilyStats {
    pub records: usize,
    /// worst |got - want| over cdf, sf (and pmf)
    pub worst_abs: f64,
    /// worst |got - want| / want over reference values >= 1e-15
    pub worst_rel: f64,
    /// worst |got - want| / tolerance
    pub worst_tol_ratio: f64,
}

#[derive(Clone, Debug, Default)]
pub struct SelftestSummary {
    pub records: usize,
    pub loose_records: usize,
    pub families: BTreeMap<String, FamilyStats>,
}

impl std::fmt::Display for SelftestSummary {
    fn fmt(&self, f: &mut std::fmt::Formatter<'_>) -> std::fmt::Result {
        writeln!(f, "{} records checked ({} loose)", self.records, self.loose_records)?;
        writeln!(f, "{:<16} {:>7} {:>11} {:>11} {:>9}", "family", "records", "worst_abs", "worst_rel", "err/tol")?;
        for (k, v) in &self.families {
            writeln!(
                f,
                "{:<16} {:>7} {:>11.3e} {:>11.3e} {:>9.2e}",
                k, v.records, v.worst_abs, v.worst_rel, v.worst_tol_ratio
            )?;
        }
        Ok(())
    }
}

fn num(v: &Value) -> Result<f64, String> {
    match v {
        Value::Num(s) | Value::Str(s) => match s.as_str() {
            "inf" | "Infinity" => Ok(f64::INFINITY),
            "-inf" | "-Infinity" => Ok(f64::NEG_INFINITY),
            _ => s.parse::<f64>().map_err(|e| format!("bad number {s:?}: {e}")),
        },
        _ => Err(format!("expected number, got {v:?}")),
    }
}
fn uint(v: &Value) -> Result<u64, String> {
    match v {
        Value::Num(s) | Value::Str(s) => {
            if let Ok(u) = s.parse::<u64>() {
                Ok(u)
            } else {
                let f = s.parse::<f64>().map_err(|e| format!("bad integer {s:?}: {e}"))?;
                if f >= 0.0 && f.fract() == 0.0 && f < 1.8446744073709552e19 {
                    Ok(f as u64)
                } else {
                    Err(format!("bad integer {s:?}"))
                }
            }
        }
        _ => Err(format!("expected integer, got {v:?}")),
    }
}

/// Build a discrete law from a reference record (integer parameters are parsed exactly).
fn disc_from(fam: &str, p: &[Value]) -> Result<Disc, String> {
    let g = |i: usize| p.get(i).ok_or_else(|| format!("{fam}: missing parameter {i}"));
    Ok(match fam {
        "Binomial" => Disc::Binomial { n: uint(g(0)?)?, p: num(g(1)?)? },
        "Poisson" => Disc::Poisson { lambda: num(g(0)?)? },
        "Geometric" => Disc::Geometric { p: num(g(0)?)? },
        "Hypergeometric" => {
            Disc::Hypergeometric { total: uint(g(0)?)?, feature: uint(g(1)?)?, draws: uint(g(2)?)? }
        }
        "Zipf" => Disc::Zipf { n: uint(g(0)?)?, s: num(g(1)?)? },
        "Zeta" => Disc::Zeta { s: num(g(0)?)? },
        _ => return Err(format!("unknown discrete family {fam}")),
    })
}

struct Checker {
    summary: SelftestSummary,
    failures: Vec<String>,
}
impl Checker {
    fn check(&mut self, fam: &str, desc: &str, what: &str, got: f64, want: f64, tol: f64) {
        let st = self.summary.families.entry(fam.to_string()).or_default();
        let err = (got - want).abs();
        if !(err <= tol) {
            if self.failures.len() < 20 {
                self.failures.push(format!(
                    "{desc}: {what} got {got:e} want {want:e} (err {err:.3e}, tol {tol:.3e})"
                ));
            } else {
                self.failures.push(String::new());
            }
        }
        if err.is_finite() {
            st.worst_abs = st.worst_abs.max(err);
            st.worst_tol_ratio = st.worst_tol_ratio.max(err / tol);
            if want >= 1e-15 {
                st.worst_rel = st.worst_rel.max(err / want);
            }
        } else {
            st.worst_abs = f64::INFINITY;
        }
    }
}

/// Compare every reference record with the Rust oracle.
pub fn selftest() -> Result<SelftestSummary, String> {
    let mut ck = Checker { summary: SelftestSummary::default(), failures: Vec::new() };

    // ---- continuous
    let v = json::parse(REFS_CONT).map_err(|e| format!("refs/cont.json: {e}"))?;
    let arr = v.as_array().ok_or("refs/cont.json: top level must be an array")?;
    for rec in arr {
        let fam = rec.get("family").and_then(|v| v.as_str()).ok_or("record without family")?;
        let ps = rec.get("params").and_then(|v| v.as_array()).ok_or("record without params")?;
        let params: Result<Vec<f64>, String> = ps.iter().map(num).collect();
        let params = params?;
        let x = num(rec.get("x").ok_or("record without x")?)?;
        let law = Cont::from_name(fam, &params).ok_or_else(|| format!("unknown family {fam}"))?;
        let desc = format!("{law:?} x={x:e}");
        let tol = |w: f64| 1e-12 + 1e-8 * w;
        let wc = num(rec.get("cdf").ok_or("record without cdf")?)?;
        let ws = num(rec.get("sf").ok_or("record without sf")?)?;
        ck.check(fam, &desc, "cdf", law.cdf(x), wc, tol(wc));
        ck.check(fam, &desc, "sf", law.sf(x), ws, tol(ws));
        ck.summary.records += 1;
        ck.summary.families.get_mut(fam).unwrap().records += 1;
    }

    // ---- discrete
    let v = json::parse(REFS_DISC).map_err(|e| format!("refs/disc.json: {e}"))?;
    let arr = v.as_array().ok_or("refs/disc.json: top level must be an array")?;
    let mut pending: Vec<(Disc, String, u64, f64, f64, bool)> = Vec::new();
    for rec in arr {
        let fam = rec.get("family").and_then(|v| v.as_str()).ok_or("record without family")?;
        let ps = rec.get("params").and_then(|v| v.as_array()).ok_or("record without params")?;
        let law = disc_from(fam, ps)?;
        let k = uint(rec.get("k").ok_or("record without k")?)?;
        let loose = matches!(rec.get("loose"), Some(Value::Bool(true)));
        let desc = format!("{law:?} k={k}");
        let eb = law.err_bound();
        let tol = |w: f64| if loose { eb.max(1e-13 + 1e-9 * w) } else { 1e-13 + 1e-9 * w };
        let wc = num(rec.get("cdf").ok_or("record without cdf")?)?;
        let ws = num(rec.get("sf").ok_or("record without sf")?)?;
        let (gc, gs) = (law.cdf(k), law.sf(k));
        ck.check(fam, &desc, "cdf", gc, wc, tol(wc));
        ck.check(fam, &desc, "sf", gs, ws, tol(ws));
        if let Some(wp) = rec.get("pmf") {
            let wp = num(wp)?;
            ck.check(fam, &desc, "pmf", law.pmf(k), wp, tol(wp));
        }
        pending.push((law, fam.to_string(), k, wc, ws, loose));
        ck.summary.records += 1;
        if loose {
            ck.summary.loose_records += 1;
        }
        ck.summary.families.get_mut(fam).unwrap().records += 1;
    }

    // the one-sweep tables must agree with the references as well (one table per law)
    let mut i = 0;
    while i < pending.len() {
        let law = pending[i].0;
        let mut j = i;
        while j < pending.len() && pending[j].0 == law {
            j += 1;
        }
        let mut ks: Vec<u64> = pending[i..j].iter().map(|r| r.2).collect();
        ks.sort_unstable();
        let t = law.table(&ks);
        let teb = law.table_err_bound();
        for r in &pending[i..j] {
            let pos = ks.binary_search(&r.2).unwrap();
            let desc = format!("{law:?} k={}", r.2);
            let ttol = |w: f64| if r.5 { teb.max(1e-13 + 1e-9 * w) } else { 1e-13 + 1e-9 * w };
            ck.check(&r.1, &desc, "table.cdf", t[pos].0, r.3, ttol(r.3));
            ck.check(&r.1, &desc, "table.sf", t[pos].1, r.4, ttol(r.4));
        }
        i = j;
    }

    if ck.failures.is_empty() {
        Ok(ck.summary)
    } else {
        let n = ck.failures.len();
        let shown: Vec<String> = ck.failures.into_iter().filter(|s| !s.is_empty()).collect();
        Err(format!("{n} reference mismatches (first {}):\n{}", shown.len(), shown.join("\n")))
    }
}
