//! Helpers for the discrete laws: saddle-point pmf kernels (Loader), tail
//! summation by recurrence, Edgeworth approximation for lattice laws with huge
//! standard deviation, and generalised harmonic numbers by Euler-Maclaurin.

use crate::sf::*;
use std::f64::consts::PI;

/// sd above which single-k cdf/sf switch from exact tail summation to Edgeworth.
pub const SD_SUM_MAX: f64 = 2.0e4;
/// sd up to which `table()` uses the exact one-pass sweep.
pub const SD_SWEEP_MAX: f64 = 1.5e6;

/// x ln(x/(x+d)) + d  (= bd0(x, x+d)), x > 0, x + d > 0.
/// `m` = x + d is passed separately because it is known more accurately when m << x.
#[inline]
pub fn dev(x: f64, d: f64, m: f64) -> f64 {
    let r = d / x;
    if r < -0.9 {
        x * (x / m).ln() + d
    } else {
        -x * log1pmx(r)
    }
}

/// Binomial-type kernel  C(n,k) p^k q^(n-k)  in Loader's form.
/// `nmk` = n-k, `d` = n p - k (accurately), `lp`/`lq` = ln p, ln q (used only at k=0 / k=n).
/// `np`, `nq` = n p and n q computed directly by the caller.
pub fn binom_raw(k: f64, n: f64, nmk: f64, d: f64, np: f64, nq: f64, lp: f64, lq: f64) -> f64 {
    if n == 0.0 {
        return 1.0;
    }
    if k == 0.0 {
        return (n * lq).exp();
    }
    if nmk == 0.0 {
        return (n * lp).exp();
    }
    // n p = k + d > 0 and n q = nmk - d > 0 required
    if !(np > 0.0) || !(nq > 0.0) {
        return 0.0;
    }
    let lc = stirl_gamma(n) - stirl_gamma(k) - stirl_gamma(nmk) - dev(k, d, np) - dev(nmk, -d, nq);
    lc.exp() * (n / (2.0 * PI * k * nmk)).sqrt()
}

/// n*p - k for integer n,k and f64 p, without losing the low bits of n*p.
pub fn np_minus_k(n: u64, p: f64, k: u64) -> f64 {
    let nh = n as f64;
    let nl = (n as i128 - nh as i128) as f64;
    let kh = k as f64;
    let kl = (k as i128 - kh as i128) as f64;
    let ph = nh * p;
    let pl = nh.mul_add(p, -ph) + nl * p;
    (ph - kh) + (pl - kl)
}

/// Sum of a positive sequence t0, t0*r(0), t0*r(0)*r(1), ...  until negligible
/// or `max_terms` (the support end) is reached.  Returns the sum.
#[inline]
pub fn geo_sum<R: FnMut(u64) -> f64>(t0: f64, max_terms: u64, mut ratio: R) -> f64 {
    let mut s = t0;
    let mut t = t0;
    let mut i = 0u64;
    while i < max_terms {
        let r = ratio(i);
        t *= r;
        s += t;
        i += 1;
        if t < 1e-18 * s && r < 1.0 {
            break;
        }
    }
    s
}

/// Edgeworth approximation (lattice span 1, continuity corrected) of (cdf, sf)
/// at the point whose standardised mid-point is z = (k + 1/2 - mean)/sd.
/// g1 = skewness, g2 = excess kurtosis.
pub fn edgeworth(z: f64, sd: f64, g1: f64, g2: f64) -> (f64, f64) {
    if z.abs() > 39.0 {
        return if z > 0.0 { (1.0, 0.0) } else { (0.0, 1.0) };
    }
    let z2 = z * z;
    let he2 = z2 - 1.0;
    let he3 = z * (z2 - 3.0);
    let he5 = z * (z2 * (z2 - 10.0) + 15.0);
    let corr = phi_pdf(z) * (g1 * he2 / 6.0 + g2 * he3 / 24.0 + g1 * g1 * he5 / 72.0 - z / (24.0 * sd * sd));
    let c = (phi_cdf(z) - corr).clamp(0.0, 1.0);
    let s = (phi_cdf(-z) + corr).clamp(0.0, 1.0);
    (c, s)
}

const EM_COEF: [f64; 7] = [
    1.0 / 12.0,
    -1.0 / 720.0,
    1.0 / 30240.0,
    -1.0 / 1209600.0,
    1.0 / 47900160.0,
    -691.0 / 1307674368000.0,
    1.0 / 74724249600.0,
];

/// sum_{j=m}^{b} j^-s (b = None: infinity, needs s > 1) by Euler-Maclaurin; m >= 1 large enough
/// (m >= 32 and m >= s/2 gives ~1e-16 relative to the first term).
fn em_tail(m: f64, b: Option<f64>, s: f64) -> f64 {
    let fm = (-s * m.ln()).exp();
    // derivative correction at a point x: sum_i c_i f^(2i-1)(x), f^(r)(x) = (-1)^r (s)_r x^(-s-r)
    let dcorr = |x: f64, fx: f64| -> f64 {
        let mut acc = 0.0;
        let mut poch = s; // (s)_1
        let mut xp = 1.0 / x; // x^-(2i-1)
        let x2 = 1.0 / (x * x);
        for i in 0..EM_COEF.len() {
            let r = 2 * i + 1;
            let t = -EM_COEF[i] * poch * xp * fx; // odd derivative: sign -1
            acc += t;
            // advance to r+2
            poch *= (s + r as f64) * (s + r as f64 + 1.0);
            xp *= x2;
            if t.abs() < 1e-19 * fx {
                break;
            }
        }
        acc
    };
    match b {
        None => {
            // int_m^inf = m^(1-s)/(s-1) ; f(b), f'(b).. -> 0
            m * fm / (s - 1.0) + 0.5 * fm - dcorr(m, fm)
        }
        Some(b) => {
            let fb = (-s * b.ln()).exp();
            let l = if b < 2.0 * m { ln_1p((b - m) / m) } else { (b / m).ln() };
            let u = (1.0 - s) * l;
            let g = if u.abs() < 1e-8 { 1.0 + 0.5 * u } else { exp_m1(u) / u };
            let integral = m * fm * l * g;
            integral + 0.5 * (fm + fb) + dcorr(b, fb) - dcorr(m, fm)
        }
    }
}

/// sum_{j=a}^{b} j^-s  for 1 <= a, b >= a-1 (empty sum = 0); any real s.
pub fn hsum(a: u64, b: u64, s: f64) -> f64 {
    if b < a {
        return 0.0;
    }
    let m0 = 32u64.max((0.5 * s.abs()).ceil() as u64 + 1);
    if b - a <= 64 || b < m0 {
        let mut acc = 0.0;
        let mut j = b;
        loop {
            acc += (-s * (j as f64).ln()).exp();
            if j == a {
                break;
            }
            j -= 1;
        }
        return acc;
    }
    if a >= m0 {
        return em_tail(a as f64, Some(b as f64), s);
    }
    let tail = em_tail(m0 as f64, Some(b as f64), s);
    let mut acc = 0.0;
    let mut j = m0 - 1;
    loop {
        acc += (-s * (j as f64).ln()).exp();
        if j == a {
            break;
        }
        j -= 1;
    }
    // add small to large
    tail + acc
}

/// Hurwitz zeta  sum_{j>=a} j^-s, integer a >= 1, s > 1.
pub fn hurwitz(a: u64, s: f64) -> f64 {
    let m0 = 32u64.max((0.5 * s).ceil() as u64 + 1);
    if a >= m0 {
        return em_tail(a as f64, None, s);
    }
    let mut acc = em_tail(m0 as f64, None, s);
    let mut j = m0 - 1;
    loop {
        acc += (-s * (j as f64).ln()).exp();
        if j == a {
            break;
        }
        j -= 1;
    }
    acc
}

/// Hurwitz zeta for a large real start (a >= 2^53; Euler-Maclaurin directly).
pub fn hurwitz_f(a: f64, s: f64) -> f64 {
    em_tail(a, None, s)
}
