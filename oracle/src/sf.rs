//! Special functions used by the reference laws.
//!
//! Everything here is written so that *small* results keep their RELATIVE
//! accuracy (tails), which is what the harness needs.  Elementary functions
//! come from `libm` (erfc, lgamma, expm1, log1p: all < 1 ulp).

use std::f64::consts::PI;

pub const LN_SQRT_2PI: f64 = 0.918_938_533_204_672_741_78;
pub const SQRT_2PI: f64 = 2.506_628_274_631_000_502_4;
pub const FRAC_1_SQRT_2PI: f64 = 0.398_942_280_401_432_677_94;
pub const SQRT_PI: f64 = 1.772_453_850_905_516_027_3;

#[inline]
pub fn ln_gamma(x: f64) -> f64 {
    libm::lgamma(x)
}
#[inline]
pub fn erfc(x: f64) -> f64 {
    libm::erfc(x)
}
#[inline]
pub fn ln_1p(x: f64) -> f64 {
    libm::log1p(x)
}
#[inline]
pub fn exp_m1(x: f64) -> f64 {
    libm::expm1(x)
}

/// Standard normal cdf.
#[inline]
pub fn phi_cdf(z: f64) -> f64 {
    0.5 * erfc(-z * std::f64::consts::FRAC_1_SQRT_2)
}
/// Standard normal density.
#[inline]
pub fn phi_pdf(z: f64) -> f64 {
    FRAC_1_SQRT_2PI * (-0.5 * z * z).exp()
}

/// Scaled complementary error function erfcx(x) = exp(x^2) erfc(x), x >= 0
/// accurate to a few ulp; for x<0 falls back to the definition.
pub fn erfcx(x: f64) -> f64 {
    if x < 6.0 {
        if x < -26.0 {
            return f64::INFINITY;
        }
        return (x * x).exp() * erfc(x);
    }
    // asymptotic series, 2x^2 >= 72: terms fall below 1e-17 long before diverging
    let r = 1.0 / (2.0 * x * x);
    let mut term = 1.0;
    let mut sum = 1.0;
    let mut k = 0.0;
    loop {
        k += 1.0;
        let t = -term * (2.0 * k - 1.0) * r;
        if t.abs() >= term.abs() || t.abs() < 1e-18 {
            break;
        }
        term = t;
        sum += term;
    }
    sum / (x * SQRT_PI)
}

/// g(t) = 1 - sqrt(pi) t erfcx(t)  (~ 1/(2t^2) for large t), relative accuracy.
pub fn one_minus_sqrtpi_t_erfcx(t: f64) -> f64 {
    if t < 6.0 {
        return 1.0 - SQRT_PI * t * erfcx(t);
    }
    let r = 1.0 / (2.0 * t * t);
    // 1 - (1 - r + 3 r^2 - 15 r^3 ...) = r - 3r^2 + 15 r^3 - ...
    let mut term = r;
    let mut sum = r;
    let mut k = 1.0;
    loop {
        k += 1.0;
        let t2 = -term * (2.0 * k - 1.0) * r;
        if t2.abs() >= term.abs() || t2.abs() < 1e-18 * sum.abs() {
            break;
        }
        term = t2;
        sum += term;
    }
    sum
}

/// log1pmx(x) = ln(1+x) - x, accurate for small |x|.  x > -1.
pub fn log1pmx(x: f64) -> f64 {
    if x.abs() > 0.5 {
        return ln_1p(x) - x;
    }
    if x.abs() < 0.01 {
        // -x^2/2 + x^3/3 - ...
        let mut sum = 0.0;
        let mut pw = -x;
        let mut k = 1.0;
        loop {
            k += 1.0;
            pw *= -x;
            let t = -pw / k; // sign: term_k = (-1)^{k+1} x^k / k
            sum += t;
            if t.abs() < 1e-18 * sum.abs() || k > 40.0 {
                break;
            }
        }
        return sum;
    }
    // continued-fraction free form: ln(1+x)-x = r*(2y(1/3 + y/5 + ...) - x) with r=x/(2+x), y=r^2 (R's log1pmx idea)
    let r = x / (2.0 + x);
    let y = r * r;
    // sum_{j>=0} y^j/(2j+3)
    let mut s = 0.0;
    let mut j = 30;
    while j >= 0 {
        s = 1.0 / (2.0 * j as f64 + 3.0) + y * s;
        j -= 1;
    }
    r * (2.0 * y * s - x)
}

/// Stirling error: ln Gamma(a) - [(a-1/2) ln a - a + ln sqrt(2 pi)],  a > 0.
/// (note: this is for Gamma(a), i.e. stirlerr_R(a) with n! = Gamma(a+1) differs)
pub fn stirl_gamma(a: f64) -> f64 {
    if a < 16.0 {
        return ln_gamma(a) - ((a - 0.5) * a.ln() - a + LN_SQRT_2PI);
    }
    let r = 1.0 / (a * a);
    // 1/(12a) - 1/(360a^3) + 1/(1260a^5) - 1/(1680 a^7) + 1/(1188 a^9) - 691/(360360 a^11)
    (1.0 / 12.0
        - r * (1.0 / 360.0
            - r * (1.0 / 1260.0 - r * (1.0 / 1680.0 - r * (1.0 / 1188.0 - r * (691.0 / 360360.0))))))
        / a
}

/// Deviance part bd0(x, m) = x ln(x/m) + m - x  >= 0, accurate when x ~ m. x>0, m>0.
pub fn bd0(x: f64, m: f64) -> f64 {
    // x ln(x/m) + m - x = -x * log1pmx((m-x)/x)
    let d = (m - x) / x;
    if d > -0.9 && d.is_finite() {
        -x * log1pmx(d)
    } else {
        x * (x / m).ln() + m - x
    }
}

/// x^a e^-x / Gamma(a+1)   (= Poisson pmf at real "count" a with mean x), relative accuracy.
/// `d` = x - a supplied by the caller when it is known more exactly (else pass x-a).
pub fn gamma_prefix(a: f64, x: f64, d: f64) -> f64 {
    if x <= 0.0 {
        return 0.0;
    }
    if !x.is_finite() {
        return 0.0;
    }
    // Gamma(a+1) = a Gamma(a) = sqrt(2 pi a) a^a e^-a e^{stirl(a)}
    let mu = d / a;
    if mu < -0.9 || !(mu < 1e3) {
        // x << a: no cancellation problem, but 1+mu would lose the small x
        return (a * x.ln() - x - ln_gamma(a + 1.0)).exp();
    }
    let dev = -a * log1pmx(mu);
    (-dev - stirl_gamma(a)).exp() / (SQRT_2PI * a.sqrt())
}

/// Regularised incomplete gamma functions (P(a,x), Q(a,x)).
pub fn gamma_pq(a: f64, x: f64) -> (f64, f64) {
    gamma_pq_d(a, x, x - a)
}

/// Same with the difference d = x - a given separately (exact for huge arguments).
pub fn gamma_pq_d(a: f64, x: f64, d: f64) -> (f64, f64) {
    if !(x > 0.0) {
        return (0.0, 1.0);
    }
    if x == f64::INFINITY {
        return (1.0, 0.0);
    }
    if a > 2.0e7 {
        return gamma_pq_temme(a, d);
    }
    if x > 3.0 * a + 800.0 {
        return (1.0, 0.0); // Q < exp(-745)
    }
    let pre = gamma_prefix(a, x, d);
    if x < a + 1.0 {
        // series: P = pre * sum_{n>=0} x^n / ((a+1)...(a+n))
        let mut sum = 1.0;
        let mut term = 1.0;
        let mut ap = a;
        for _ in 0..2_000_000 {
            ap += 1.0;
            term *= x / ap;
            sum += term;
            if term < 1e-17 * sum {
                break;
            }
        }
        let p = (pre * sum).min(1.0);
        (p, 1.0 - p)
    } else {
        // Lentz continued fraction for Q = pre * a * 1/(x+1-a- 1(1-a)/(x+3-a- ...))
        let tiny = 1e-300;
        let mut b = x + 1.0 - a;
        let mut c = 1.0 / tiny;
        let mut dd = 1.0 / b;
        let mut h = dd;
        let mut i = 0.0;
        for _ in 0..2_000_000 {
            i += 1.0;
            let an = -i * (i - a);
            b += 2.0;
            dd = an * dd + b;
            if dd.abs() < tiny {
                dd = tiny;
            }
            c = b + an / c;
            if c.abs() < tiny {
                c = tiny;
            }
            dd = 1.0 / dd;
            let del = dd * c;
            h *= del;
            if (del - 1.0).abs() < 1e-16 {
                break;
            }
        }
        let q = (pre * a * h).min(1.0);
        (1.0 - q, q)
    }
}

/// Temme's uniform asymptotic expansion, first three coefficient functions
/// expanded around eta = 0 (only |eta| < ~0.02 matters for a > 2e7).
fn gamma_pq_temme(a: f64, d: f64) -> (f64, f64) {
    let mu = d / a; // lambda - 1
    if mu <= -1.0 {
        return (0.0, 1.0);
    }
    let e2 = -2.0 * log1pmx(mu); // eta^2
    let eta = if mu >= 0.0 { e2.sqrt() } else { -e2.sqrt() };
    let y = 0.5 * a * e2;
    if y > 745.0 {
        return if eta > 0.0 { (1.0, 0.0) } else { (0.0, 1.0) };
    }
    let c0 = -1.0 / 3.0
        + eta
            * (1.0 / 12.0
                + eta
                    * (-2.0 / 135.0
                        + eta
                            * (1.0 / 864.0
                                + eta * (1.0 / 2835.0 + eta * (-139.0 / 777600.0 + eta * (1.0 / 25515.0))))));
    let c1 = -1.0 / 540.0
        + eta
            * (-1.0 / 288.0
                + eta * (1.0 / 378.0 + eta * (-77.0 / 77760.0 + eta * (1.0 / 4860.0))));
    let c2 = 25.0 / 6048.0 + eta * (-139.0 / 51840.0 + eta * (1.0 / 1296.0));
    let r = (-y).exp() / (SQRT_2PI * a.sqrt()) * (c0 + (c1 + c2 / a) / a);
    let z = (y).sqrt();
    // Q = 1/2 erfc(eta sqrt(a/2)) + r ;  P = 1/2 erfc(-eta sqrt(a/2)) - r
    if eta >= 0.0 {
        let q = (0.5 * erfc(z) + r).clamp(0.0, 1.0);
        (1.0 - q, q)
    } else {
        let p = (0.5 * erfc(z) - r).clamp(0.0, 1.0);
        (p, 1.0 - p)
    }
}

/// x^a y^b / B(a,b)  with relative accuracy for all a,b > 0 (y = 1-x supplied).
pub fn beta_prefix(a: f64, b: f64, x: f64, y: f64) -> f64 {
    if x <= 0.0 || y <= 0.0 {
        return 0.0;
    }
    let n = a + b;
    // Gamma(n)/(Gamma(a)Gamma(b)) x^a y^b
    //  = sqrt(a b / (2 pi n)) exp(stirl(n)-stirl(a)-stirl(b)) exp(-bd0(a, n x) - bd0(b, n y))
    let dev = bd0(a, n * x) + bd0(b, n * y);
    (a * b / (2.0 * PI * n)).sqrt() * (stirl_gamma(n) - stirl_gamma(a) - stirl_gamma(b) - dev).exp()
}

fn beta_cf(a: f64, b: f64, x: f64) -> f64 {
    // Numerical-Recipes style modified Lentz for the I_x(a,b) continued fraction.
    let tiny = 1e-300;
    let qab = a + b;
    let qap = a + 1.0;
    let qam = a - 1.0;
    let mut c = 1.0;
    let mut d = 1.0 - qab * x / qap;
    if d.abs() < tiny {
        d = tiny;
    }
    d = 1.0 / d;
    let mut h = d;
    let mut m = 0.0;
    for _ in 0..1_000_000 {
        m += 1.0;
        let m2 = 2.0 * m;
        let aa = m * (b - m) * x / ((qam + m2) * (a + m2));
        d = 1.0 + aa * d;
        if d.abs() < tiny {
            d = tiny;
        }
        c = 1.0 + aa / c;
        if c.abs() < tiny {
            c = tiny;
        }
        d = 1.0 / d;
        h *= d * c;
        let aa = -(a + m) * (qab + m) * x / ((a + m2) * (qap + m2));
        d = 1.0 + aa * d;
        if d.abs() < tiny {
            d = tiny;
        }
        c = 1.0 + aa / c;
        if c.abs() < tiny {
            c = tiny;
        }
        d = 1.0 / d;
        let del = d * c;
        h *= del;
        if (del - 1.0).abs() < 1e-16 {
            break;
        }
    }
    h
}

/// Regularised incomplete beta: returns (I_x(a,b), 1 - I_x(a,b)); y must be 1-x
/// (given separately so that either end keeps full relative accuracy).
pub fn ibeta(a: f64, b: f64, x: f64, y: f64) -> (f64, f64) {
    if !(x > 0.0) {
        return (0.0, 1.0);
    }
    if !(y > 0.0) {
        return (1.0, 0.0);
    }
    if x < 1e-290 || y < 1e-290 {
        // leading term only (the next one is O(x)); avoids underflow of (a+b)*x for subnormal x
        let lead = |a: f64, b: f64, x: f64| (a * x.ln() + ln_gamma(a + b) - ln_gamma(a + 1.0) - ln_gamma(b)).exp();
        return if x < 1e-290 {
            let v = lead(a, b, x).min(1.0);
            (v, 1.0 - v)
        } else {
            let v = lead(b, a, y).min(1.0);
            (1.0 - v, v)
        };
    }
    let pre = beta_prefix(a, b, x, y);
    if x < (a + 1.0) / (a + b + 2.0) {
        let v = (pre * beta_cf(a, b, x) / a).min(1.0);
        (v, 1.0 - v)
    } else {
        let v = (pre * beta_cf(b, a, y) / b).min(1.0);
        (1.0 - v, v)
    }
}

/// (P, Q) of Gamma(a) at t = x/scale, robust against underflow of the quotient.
pub fn gamma_pq_scaled(a: f64, x: f64, scale: f64) -> (f64, f64) {
    if !(x > 0.0) {
        return (0.0, 1.0);
    }
    let t = x / scale;
    if t < 1e-290 {
        let p = (a * (x.ln() - scale.ln()) - ln_gamma(a + 1.0)).exp().min(1.0);
        return (p, 1.0 - p);
    }
    gamma_pq(a, t)
}
