//! Minimal JSON reader (enough for the reference tables; numbers are kept as text).

#[derive(Clone, Debug, PartialEq)]
pub enum Value {
    Null,
    Bool(bool),
    Num(String),
    Str(String),
    Arr(Vec<Value>),
    Obj(Vec<(String, Value)>),
}

impl Value {
    pub fn as_array(&self) -> Option<&Vec<Value>> {
        if let Value::Arr(a) = self {
            Some(a)
        } else {
            None
        }
    }
    pub fn as_str(&self) -> Option<&str> {
        if let Value::Str(s) = self {
            Some(s)
        } else {
            None
        }
    }
    pub fn get(&self, key: &str) -> Option<&Value> {
        if let Value::Obj(o) = self {
            o.iter().find(|(k, _)| k == key).map(|(_, v)| v)
        } else {
            None
        }
    }
}

struct P<'a> {
    b: &'a [u8],
    i: usize,
}

impl<'a> P<'a> {
    fn ws(&mut self) {
        while self.i < self.b.len() && matches!(self.b[self.i], b' ' | b'\n' | b'\r' | b'\t') {
            self.i += 1;
        }
    }
    fn err<T>(&self, m: &str) -> Result<T, String> {
        Err(format!("{m} at byte {}", self.i))
    }
    fn value(&mut self) -> Result<Value, String> {
        self.ws();
        if self.i >= self.b.len() {
            return self.err("unexpected end");
        }
        match self.b[self.i] {
            b'{' => {
                self.i += 1;
                let mut o = Vec::new();
                self.ws();
                if self.b.get(self.i) == Some(&b'}') {
                    self.i += 1;
                    return Ok(Value::Obj(o));
                }
                loop {
                    self.ws();
                    let k = match self.value()? {
                        Value::Str(s) => s,
                        _ => return self.err("object key must be a string"),
                    };
                    self.ws();
                    if self.b.get(self.i) != Some(&b':') {
                        return self.err("expected ':'");
                    }
                    self.i += 1;
                    let v = self.value()?;
                    o.push((k, v));
                    self.ws();
                    match self.b.get(self.i) {
                        Some(b',') => self.i += 1,
                        Some(b'}') => {
                            self.i += 1;
                            return Ok(Value::Obj(o));
                        }
                        _ => return self.err("expected ',' or '}'"),
                    }
                }
            }
            b'[' => {
                self.i += 1;
                let mut a = Vec::new();
                self.ws();
                if self.b.get(self.i) == Some(&b']') {
                    self.i += 1;
                    return Ok(Value::Arr(a));
                }
                loop {
                    a.push(self.value()?);
                    self.ws();
                    match self.b.get(self.i) {
                        Some(b',') => self.i += 1,
                        Some(b']') => {
                            self.i += 1;
                            return Ok(Value::Arr(a));
                        }
                        _ => return self.err("expected ',' or ']'"),
                    }
                }
            }
            b'"' => {
                self.i += 1;
                let mut s = String::new();
                loop {
                    match self.b.get(self.i) {
                        None => return self.err("unterminated string"),
                        Some(b'"') => {
                            self.i += 1;
                            return Ok(Value::Str(s));
                        }
                        Some(b'\\') => {
                            self.i += 1;
                            match self.b.get(self.i) {
                                Some(b'n') => s.push('\n'),
                                Some(b't') => s.push('\t'),
                                Some(&c) => s.push(c as char),
                                None => return self.err("bad escape"),
                            }
                            self.i += 1;
                        }
                        Some(&c) => {
                            s.push(c as char);
                            self.i += 1;
                        }
                    }
                }
            }
            b't' if self.b[self.i..].starts_with(b"true") => {
                self.i += 4;
                Ok(Value::Bool(true))
            }
            b'f' if self.b[self.i..].starts_with(b"false") => {
                self.i += 5;
                Ok(Value::Bool(false))
            }
            b'n' if self.b[self.i..].starts_with(b"null") => {
                self.i += 4;
                Ok(Value::Null)
            }
            _ => {
                let st = self.i;
                while self.i < self.b.len()
                    && matches!(self.b[self.i], b'0'..=b'9' | b'+' | b'-' | b'.' | b'e' | b'E')
                {
                    self.i += 1;
                }
                if st == self.i {
                    return self.err("unexpected character");
                }
                Ok(Value::Num(String::from_utf8_lossy(&self.b[st..self.i]).into_owned()))
            }
        }
    }
}

pub fn parse(s: &str) -> Result<Value, String> {
    let mut p = P { b: s.as_bytes(), i: 0 };
    let v = p.value()?;
    p.ws();
    if p.i != s.len() {
        return p.err("trailing data");
    }
    Ok(v)
}
