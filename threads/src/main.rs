//! Thread-schedule simulation for C14 (run under Miri, whose scheduler is seeded).
//!
//! `rand_distr` has no shared state, so on the unchanged tree threads that sample with their
//! own RNG streams cannot influence each other.  A change that adds a process-wide cache
//! (statics, atomics, thread-locals) can keep every *sequential* oracle of C14 happy -- a
//! correctly keyed memo is invisible to re-execution, reverse order and fresh-process
//! isolation -- and still tear under concurrency.  This program is the missing interleaving
//! dimension: 2-3 threads sample concurrently from related distribution values (shared by
//! reference or not), each on its own seeded stream, and every thread's output must be
//! bit-identical to what the same value produced on the same stream when it ran alone.
//!
//! Which thread runs when is decided by Miri (`-Zmiri-seed`, `-Zmiri-preemption-rate`): one
//! (scenario seed, Miri seed) pair is one exactly repeatable schedule.  Natively the program
//! also runs (real threads; used only as a smoke test).
//!
//! usage: verif-threads <scenario_seed> [calls_per_thread]
//! exit 0: `THREADS-OK ...`; exit 1: `THREADS-VIOLATION ...`

use rand_distr::multi::{Dirichlet, MultiDistribution};
use rand_distr::weighted::{WeightedAliasIndex, WeightedTreeIndex};
use rand_distr::*;
use std::sync::Arc;

/// splitmix64 stream: the ideal word source of each thread
#[derive(Clone)]
struct Words(u64);
impl Words {
    fn next(&mut self) -> u64 {
        self.0 = self.0.wrapping_add(0x9E37_79B9_7F4A_7C15);
        let mut z = self.0;
        z = (z ^ (z >> 30)).wrapping_mul(0xBF58_476D_1CE4_E5B9);
        z = (z ^ (z >> 27)).wrapping_mul(0x94D0_49BB_1331_11EB);
        z ^ (z >> 31)
    }
    fn below(&mut self, n: u64) -> u64 {
        ((self.next() as u128 * n as u128) >> 64) as u64
    }
}
impl rand::TryRng for Words {
    type Error = core::convert::Infallible;
    fn try_next_u32(&mut self) -> Result<u32, Self::Error> {
        Ok((self.next() >> 32) as u32)
    }
    fn try_next_u64(&mut self) -> Result<u64, Self::Error> {
        Ok(self.next())
    }
    fn try_fill_bytes(&mut self, d: &mut [u8]) -> Result<(), Self::Error> {
        for c in d.chunks_mut(8) {
            let w = self.next().to_le_bytes();
            c.copy_from_slice(&w[..c.len()]);
        }
        Ok(())
    }
}

type Sampler = Arc<dyn Fn(&mut Words) -> u64 + Send + Sync>;
/// builds the value (constructors run wherever the factory is called: in the main thread for
/// the sequential reference, and -- in half of the scenarios -- inside the sampling threads,
/// so that concurrent *construction* of equal or related values is scheduled as well)
type Factory = Arc<dyn Fn() -> Sampler + Send + Sync>;

fn f<D: Distribution<f64> + Send + Sync + 'static>(mk: impl Fn() -> D + Send + Sync + 'static) -> Factory {
    Arc::new(move || {
        let d = mk();
        Arc::new(move |r: &mut Words| d.sample(r).to_bits()) as Sampler
    })
}
fn f32s<D: Distribution<f32> + Send + Sync + 'static>(mk: impl Fn() -> D + Send + Sync + 'static) -> Factory {
    Arc::new(move || {
        let d = mk();
        Arc::new(move |r: &mut Words| d.sample(r).to_bits() as u64) as Sampler
    })
}
fn u<D: Distribution<u64> + Send + Sync + 'static>(mk: impl Fn() -> D + Send + Sync + 'static) -> Factory {
    Arc::new(move || {
        let d = mk();
        Arc::new(move |r: &mut Words| d.sample(r)) as Sampler
    })
}
fn g(mk: impl Fn() -> Sampler + Send + Sync + 'static) -> Factory {
    Arc::new(mk)
}

/// Families in groups of *related* values (agreeing in one parameter or a derived constant):
/// a cache keyed on part of the parameters, or torn between two writers, needs such pairs.
fn group(gi: u64) -> (&'static str, Vec<Factory>) {
    match gi {
        0 => (
            "Binomial (BTPE, equal mode / equal n)",
            vec![
                u(|| Binomial::new(2000, 0.5).unwrap()),
                u(|| Binomial::new(10_000_000_000, 1e-7).unwrap()),
                u(|| Binomial::new(50, 0.4).unwrap()),
                u(|| Binomial::new(2000, 0.3).unwrap()),
                u(|| Binomial::new(3000, 0.5).unwrap()),
            ],
        ),
        1 => (
            "Hypergeometric (H2PE)",
            vec![
                u(|| Hypergeometric::new(5000, 2500, 500).unwrap()),
                u(|| Hypergeometric::new(5000, 2500, 468).unwrap()),
                u(|| Hypergeometric::new(100_000, 50_000, 1000).unwrap()),
            ],
        ),
        2 => (
            "Poisson (rejection / Knuth)",
            vec![f(|| Poisson::new(50.0).unwrap()), f(|| Poisson::new(200.0).unwrap()), f(|| Poisson::new(50.5).unwrap()), f(|| Poisson::new(5.0).unwrap())],
        ),
        3 => (
            "Gamma / ChiSquared / StudentT",
            vec![
                f(|| Gamma::new(2.5, 1.0).unwrap()),
                f(|| Gamma::new(2.5, 3.0).unwrap()),
                f(|| Gamma::new(0.4, 1.0).unwrap()),
                f(|| ChiSquared::new(5.0).unwrap()),
                f(|| StudentT::new(5.0).unwrap()),
            ],
        ),
        4 => (
            "Beta / Pert",
            vec![
                f(|| Beta::new(2.0, 3.0).unwrap()),
                f(|| Beta::new(3.0, 2.0).unwrap()),
                f(|| Beta::new(0.5, 0.5).unwrap()),
                f(|| Pert::new(0.0, 10.0).with_mode(3.0).unwrap()),
            ],
        ),
        5 => (
            "SkewNormal / Normal in both scalar types",
            vec![
                f(|| SkewNormal::new(0.0, 1.0, 2.0).unwrap()),
                f32s(|| SkewNormal::<f32>::new(0.0, 1.0, 2.0).unwrap()),
                f(|| Normal::new(1.0, 2.0).unwrap()),
                f32s(|| Normal::<f32>::new(1.0, 2.0).unwrap()),
                f(|| LogNormal::new(0.0, 0.5).unwrap()),
            ],
        ),
        6 => (
            "Zipf / Zeta / Geometric",
            vec![
                f(|| Zipf::new(100.0, 1.5).unwrap()),
                f(|| Zipf::new(1000.0, 1.5).unwrap()),
                f(|| Zeta::new(2.5).unwrap()),
                u(|| Geometric::new(0.01).unwrap()),
                u(|| Geometric::new(1e-10).unwrap()),
            ],
        ),
        7 => (
            "weighted indices",
            vec![
                g(|| {
                    let d = WeightedAliasIndex::new(vec![1u32, 5, 3, 0, 7]).unwrap();
                    Arc::new(move |r: &mut Words| d.sample(r) as u64) as Sampler
                }),
                g(|| {
                    let d = WeightedAliasIndex::new(vec![0.5f64, 1.5, 0.25]).unwrap();
                    Arc::new(move |r: &mut Words| d.sample(r) as u64) as Sampler
                }),
                g(|| {
                    let d = WeightedTreeIndex::new(vec![1u32, 5, 3, 0, 7]).unwrap();
                    Arc::new(move |r: &mut Words| d.sample(r) as u64) as Sampler
                }),
            ],
        ),
        8 => (
            "Dirichlet (both methods)",
            vec![
                g(|| {
                    let d = Dirichlet::new(&[0.05f64, 0.1, 0.02]).unwrap();
                    Arc::new(move |r: &mut Words| {
                        let mut b = [0f64; 3];
                        d.sample_to_slice(r, &mut b);
                        b.iter().fold(0u64, |a, x| a.rotate_left(21) ^ x.to_bits())
                    }) as Sampler
                }),
                g(|| {
                    let d = Dirichlet::new(&[1.5f64, 0.7, 2.0]).unwrap();
                    Arc::new(move |r: &mut Words| {
                        let mut b = [0f64; 3];
                        d.sample_to_slice(r, &mut b);
                        b.iter().fold(0u64, |a, x| a.rotate_left(21) ^ x.to_bits())
                    }) as Sampler
                }),
            ],
        ),
        9 => (
            // inverse-transform regime (mode < 10): the constructor runs an O(n) set-up loop,
            // a long window for concurrent constructions of equal or mirror-image values
            "Hypergeometric (inverse transform, set-up loop)",
            vec![
                u(|| Hypergeometric::new(40_000, 10, 2000).unwrap()),
                u(|| Hypergeometric::new(40_000, 12, 1500).unwrap()),
                u(|| Hypergeometric::new(40_000, 39_990, 2000).unwrap()),
            ],
        ),
        _ => (
            "InverseGaussian / Frechet / Weibull / Triangular / geometry",
            vec![
                f(|| InverseGaussian::new(1.0, 2.0).unwrap()),
                f(|| NormalInverseGaussian::new(2.0, 1.0).unwrap()),
                f(|| Frechet::new(0.0, 1.0, 2.0).unwrap()),
                f(|| Weibull::new(1.0, 2.0).unwrap()),
                f(|| Triangular::new(0.0, 1.0, 0.3).unwrap()),
                g(|| {
                    Arc::new(|r: &mut Words| {
                        let v: [f64; 3] = UnitSphere.sample(r);
                        v.iter().fold(0u64, |a, x| a.rotate_left(21) ^ x.to_bits())
                    }) as Sampler
                }),
            ],
        ),
    }
}
const GROUPS: u64 = 11;

fn main() {
    let args: Vec<String> = std::env::args().collect();
    let scenario: u64 = args.get(1).and_then(|s| s.parse().ok()).unwrap_or(0);
    let calls: usize = args.get(2).and_then(|s| s.parse().ok()).unwrap_or(48);
    let mut plan = Words(scenario ^ 0xC14_7EAD5);
    let (gname, members) = group(plan.below(GROUPS));
    let t = 2 + plan.below(2) as usize;
    // which member each thread samples from; with probability 1/3 two threads share ONE value
    let mut picks: Vec<usize> = (0..t).map(|_| plan.below(members.len() as u64) as usize).collect();
    if plan.below(3) == 0 {
        picks[1] = picks[0];
    }
    // one scenario in four: every thread works on the same member (equal parameters)
    if plan.below(4) == 0 {
        for i in 1..t {
            picks[i] = picks[0];
        }
    }
    let seeds: Vec<u64> = (0..t).map(|_| plan.next()).collect();
    let construct_in_threads = plan.below(2) == 0;
    // what each thread must see: the same value (built here, sequentially) on the same stream, alone
    let built: Vec<Sampler> = (0..members.len()).map(|i| (members[i])()).collect();
    let expect: Vec<Vec<u64>> = (0..t)
        .map(|i| {
            let mut r = Words(seeds[i]);
            (0..calls).map(|_| (built[picks[i]])(&mut r)).collect()
        })
        .collect();
    // guard against an interpreter that perturbs floating-point results (Miri does unless
    // -Zmiri-deterministic-floats is given): the sequential reference must reproduce itself
    for i in 0..t {
        let fresh = (members[picks[i]])();
        let mut r = Words(seeds[i]);
        for k in 0..calls {
            if fresh(&mut r) != expect[i][k] {
                println!("THREADS-HARNESS scenario={scenario}: the sequential reference is not reproducible (non-deterministic floating point in the interpreter?)");
                std::process::exit(3);
            }
        }
    }
    // leave any process-wide cache keyed on the parameters pointing at a DIFFERENT member than
    // the ones the threads are about to build (the reference runs above have just primed it
    // with exactly their keys, which would hide a memo that is published before it is filled)
    let decoy = (members[(picks[0] + 1) % members.len()])();
    let _ = decoy(&mut Words(scenario ^ 0xDEC0));
    // the interleaving
    let handles: Vec<_> = (0..t)
        .map(|i| {
            let shared = built[picks[i]].clone();
            let factory = members[picks[i]].clone();
            let seed = seeds[i];
            std::thread::spawn(move || {
                // construct here (concurrently with the other threads' constructors and
                // samplers) or use the value built by the main thread
                let s = if construct_in_threads { factory() } else { shared };
                let mut r = Words(seed);
                (0..calls).map(|_| s(&mut r)).collect::<Vec<u64>>()
            })
        })
        .collect();
    let got: Vec<Vec<u64>> = handles.into_iter().map(|h| h.join().expect("a sampling thread panicked")).collect();
    let mut digest = 0u64;
    for i in 0..t {
        for k in 0..calls {
            digest = digest.rotate_left(7) ^ got[i][k];
            if got[i][k] != expect[i][k] {
                println!(
                    "THREADS-VIOLATION scenario={scenario} group=\"{gname}\" threads={t} thread={i} member={} call={k} got={:#x} alone={:#x}",
                    picks[i], got[i][k], expect[i][k]
                );
                std::process::exit(1);
            }
        }
    }
    println!("THREADS-OK scenario={scenario} group=\"{gname}\" threads={t} members={picks:?} constructed_in_threads={construct_in_threads} calls_per_thread={calls} digest={digest:016x}");
}
