#!/bin/bash
# tools_evalmut.sh <ABSOLUTE dir with patch.diff + demo.rs> <label> [tier=quick] <props...>
#
# Confirm a candidate property-breaking change and run checks against it, entirely on scratch
# copies (a git worktree of /repo HEAD and a copy of /verif whose path dependency points at
# it) under $SCRATCH (default /root/scratch/evalmut): /repo and /verif are not touched.
#  1. patch applies; the crate's suite passes with it; demo fails with / passes without
#  2. ./check <prop> <tier> for the given properties in the scratch copy of /verif
# The normalised patch (git diff against HEAD) is left in $SCRATCH/<label>.patch.
src=$1; label=$2; shift 2
tier=quick; if [ "$1" = quick ] || [ "$1" = thorough ]; then tier=$1; shift; fi
props=$@
SCRATCH=${SCRATCH:-/root/scratch/evalmut}
mkdir -p $SCRATCH
wt=$SCRATCH/repo
if [ ! -d $wt ]; then git -C /repo worktree prune; git -C /repo worktree add -q --detach $wt HEAD || exit 2; fi
cd $wt && git checkout -q --detach $(git -C /repo rev-parse HEAD) && git reset -q --hard && git clean -fdq -e target
if ! git apply --3way $src/patch.diff >/dev/null 2>&1; then echo "$label: PATCH-DOES-NOT-APPLY"; exit 3; fi
git diff HEAD > $SCRATCH/$label.patch
feat=""; if grep -q "serde" $src/demo.rs; then feat="--features serde"; fi
t=$(CARGO_NET_OFFLINE=true cargo test --offline 2>&1 | grep -E "^test result" | awk '{p+=$4; f+=$6} END {print p" passed "f" failed"}')
cp $src/demo.rs tests/mut_demo.rs
CARGO_NET_OFFLINE=true cargo test --offline $feat --test mut_demo >$SCRATCH/$label.demo_with.log 2>&1; with=$?
git reset -q --hard HEAD
cp $src/demo.rs tests/mut_demo.rs
CARGO_NET_OFFLINE=true cargo test --offline $feat --test mut_demo >$SCRATCH/$label.demo_without.log 2>&1; without=$?
rm -f tests/mut_demo.rs
echo "$label: suite[$t] demo_with_patch_rc=$with demo_without_rc=$without"
git apply $SCRATCH/$label.patch || exit 3
rsync -a --delete --exclude target --exclude .git --exclude replays --exclude evidence /verif/ $SCRATCH/verif/
mkdir -p $SCRATCH/verif/evidence $SCRATCH/verif/replays
sed -i "s#path = \"/repo\"#path = \"$wt\"#" $SCRATCH/verif/sim/Cargo.toml $SCRATCH/verif/threads/Cargo.toml
for p in $props; do
  s=$(date +%s)
  ( cd $SCRATCH/verif && ./check $p $tier ) > $SCRATCH/${label}_$p.log 2>&1; rc=$?
  e=$(date +%s)
  echo "   check $p $tier: rc=$rc ($((e-s))s) $(grep -c '^VIOLATION' $SCRATCH/${label}_$p.log) violations: $(grep -A1 '^VIOLATION' $SCRATCH/${label}_$p.log | grep class= | head -2 | cut -c1-220 | tr '\n' '|')"
done
cd $wt && git reset -q --hard HEAD
