#!/bin/bash
# tools_evalmut.sh <Cxx> <m1|m2> [props...]  -- confirm a candidate mutation and run checks against it
# 1. in a scratch worktree of /repo HEAD: patch applies, 161 tests pass, demo fails with / passes without
# 2. apply to /repo, run ./check <prop> quick for the given properties (default: the target one), undo
id=$1; m=$2; shift 2; props=${@:-$id}
src=${MUTDIR:-/tmp/mut}/$id.out/$m
wt=/tmp/mutcheck
out=/root/scratch/${MUTTAG:-}evalmut_${id}_${m}.log
: > $out
git -C /repo worktree remove --force $wt >/dev/null 2>&1
git -C /repo worktree add -q $wt HEAD || exit 2
cd $wt
if ! git apply --3way $src/patch.diff >>$out 2>&1; then echo "$id $m: PATCH-DOES-NOT-APPLY"; git -C /repo worktree remove --force $wt; exit 3; fi
git diff HEAD > /root/scratch/${MUTTAG:-}evalmut_${id}_${m}.patch
feat=""
if grep -q "serde" $src/demo.rs; then feat="--features serde"; fi
t=$(CARGO_NET_OFFLINE=true cargo test --offline 2>&1 | grep -E "^test result" | awk '{p+=$4; f+=$6} END {print p" passed "f" failed"}')
cp $src/demo.rs tests/mut_demo.rs
CARGO_NET_OFFLINE=true cargo test --offline $feat --test mut_demo >>$out 2>&1; with=$?
git reset -q --hard HEAD
CARGO_NET_OFFLINE=true cargo test --offline $feat --test mut_demo >>$out 2>&1; without=$?
cd /; git -C /repo worktree remove --force $wt
echo "$id $m: suite[$t] demo_with_patch_rc=$with demo_without_rc=$without"
# 3. run checks on /repo
cd /repo || exit 2
if [ -n "$(git status --porcelain)" ]; then echo "/repo not clean"; exit 2; fi
git apply /root/scratch/${MUTTAG:-}evalmut_${id}_${m}.patch || { echo "apply to /repo failed"; exit 3; }
for p in $props; do
  s=$(date +%s)
  (cd /verif && ./check $p quick) > /root/scratch/${MUTTAG:-}evalmut_${id}_${m}_$p.log 2>&1; rc=$?
  e=$(date +%s)
  echo "   check $p quick: rc=$rc ($((e-s))s) $(grep -c '^VIOLATION' /root/scratch/${MUTTAG:-}evalmut_${id}_${m}_$p.log) violations: $(grep -A1 '^VIOLATION' /root/scratch/${MUTTAG:-}evalmut_${id}_${m}_$p.log | grep class= | head -2 | cut -c1-200 | tr '\n' '|')"
done
git -C /repo checkout -- . ; git -C /repo status --porcelain | head -3
