//! Finite-sample-valid decision rules (DESIGN §2.7).
//!
//! * DKW–Massart for the Kolmogorov distance: P(D > e) <= 2 exp(-2 N e^2), any law.
//! * Chernoff–Hoeffding (KL) bound for a binomial count: P(X >= k) <= exp(-N KL(k/N || p))
//!   for k/N >= p, and the mirror for the lower tail.  Valid for every N and p, at most
//!   a polynomial factor loose compared with the exact tail.
//!
//! Screening level alpha_1 = 1e-7, confirmation (independent stream, 4x N) alpha_2 = 1e-9.

pub const ALPHA_SCREEN: f64 = 1e-7;
pub const ALPHA_CONFIRM: f64 = 1e-9;

/// DKW half-width at level alpha for N samples.
pub fn dkw_width(n: f64, alpha: f64) -> f64 {
    ((2.0 / alpha).ln() / (2.0 * n)).sqrt()
}

/// KL divergence between Bernoulli(q) and Bernoulli(p), natural log.
pub fn kl_bern(q: f64, p: f64) -> f64 {
    let t = |a: f64, b: f64| if a <= 0.0 { 0.0 } else if b <= 0.0 { f64::INFINITY } else { a * (a / b).ln() };
    t(q, p) + t(1.0 - q, 1.0 - p)
}

/// ln of the Chernoff bound on P(X >= k) for X ~ Bin(n, p); 0 (i.e. bound 1) if k/n <= p.
pub fn ln_upper_tail_bound(k: f64, n: f64, p: f64) -> f64 {
    let q = k / n;
    if q <= p {
        0.0
    } else if p <= 0.0 {
        f64::NEG_INFINITY
    } else {
        -n * kl_bern(q, p)
    }
}

/// ln of the Chernoff bound on P(X <= k).
pub fn ln_lower_tail_bound(k: f64, n: f64, p: f64) -> f64 {
    let q = k / n;
    if q >= p {
        0.0
    } else if p >= 1.0 {
        f64::NEG_INFINITY
    } else {
        -n * kl_bern(q, p)
    }
}

/// Is an observed count k out of n inconsistent with every success probability in
/// [p_lo, p_hi] at level alpha (two-sided, Chernoff bounds)?  Returns the "margin":
/// ln(bound)/ln(alpha) (>1 means reject; how many times over).
pub fn count_margin(k: f64, n: f64, p_lo: f64, p_hi: f64, alpha: f64) -> f64 {
    let up = ln_upper_tail_bound(k, n, p_hi.clamp(0.0, 1.0)); // too many even for the largest p
    let lo = ln_lower_tail_bound(k, n, p_lo.clamp(0.0, 1.0)); // too few even for the smallest p
    let worst = up.min(lo); // most negative
    let la = (alpha / 2.0).ln();
    if worst == 0.0 {
        0.0
    } else {
        worst / la
    }
}
