//! Known findings: committed, read-only at run time.  A violation is matched against
//! entries with status "known" only; "fixed" entries suppress nothing.
//!
//! A signature is narrow on purpose: family, scalar type, violation class, panic
//! location, tags describing the injected word (e.g. `u53=max`: the word's top 53 bits
//! are all ones, i.e. the OpenClosed01 draw equals 1.0) and parameter-regime tags.  A
//! different violation of the same property does not match and is reported.

use crate::runner::Violation;
use serde::Deserialize;
use std::collections::BTreeMap;
use std::path::Path;

#[derive(Clone, Debug, Deserialize)]
pub struct Known {
    pub id: String,
    pub property: Vec<String>,
    pub status: String,
    pub description: String,
    /// key -> allowed values. Special keys: "tags_any", "regime_any" (any-of against the
    /// comma separated sig entries "tags"/"regime"), "tags_all".
    #[serde(rename = "match")]
    pub matcher: BTreeMap<String, Vec<String>>,
    #[serde(default)]
    pub replay: Option<String>,
    #[serde(default)]
    pub commit: Option<String>,
}

#[derive(Clone, Debug, Deserialize)]
struct File {
    findings: Vec<Known>,
}

pub fn load(path: &Path) -> Result<Vec<Known>, String> {
    // maintenance aid: VERIF_NO_KNOWN=1 reports every known finding as a violation again
    // (used to regenerate the committed replay file of each finding)
    if std::env::var("VERIF_NO_KNOWN").is_ok() {
        return Ok(vec![]);
    }
    if !path.exists() {
        return Ok(vec![]);
    }
    let s = std::fs::read_to_string(path).map_err(|e| e.to_string())?;
    let f: File = serde_json::from_str(&s).map_err(|e| e.to_string())?;
    for k in &f.findings {
        if k.status != "known" && k.status != "fixed" {
            return Err(format!("{}: status must be known|fixed", k.id));
        }
    }
    Ok(f.findings)
}

fn split(s: Option<&String>) -> Vec<&str> {
    s.map(|x| x.split(',').filter(|t| !t.is_empty()).collect()).unwrap_or_default()
}

pub fn matches<'a>(known: &'a [Known], property: &str, v: &Violation) -> Option<&'a Known> {
    'outer: for k in known {
        if k.status != "known" || !k.property.iter().any(|p| p == property) {
            continue;
        }
        for (key, allowed) in &k.matcher {
            match key.as_str() {
                "tags_any" => {
                    let t = split(v.sig.get("tags"));
                    if !allowed.iter().any(|a| t.contains(&a.as_str())) {
                        continue 'outer;
                    }
                }
                "tags_all" => {
                    let t = split(v.sig.get("tags"));
                    if !allowed.iter().all(|a| t.contains(&a.as_str())) {
                        continue 'outer;
                    }
                }
                "regime_any" => {
                    let t = split(v.sig.get("regime"));
                    if !allowed.iter().any(|a| t.contains(&a.as_str())) {
                        continue 'outer;
                    }
                }
                _ => match v.sig.get(key) {
                    Some(val) if allowed.iter().any(|a| a == val) => {}
                    _ => continue 'outer,
                },
            }
        }
        return Some(k);
    }
    None
}
