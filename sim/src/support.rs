//! Support predicates, exactly as property C03 words them.

use crate::registry::{DistSpec, Family, Out, Scalar};

fn eps(spec: &DistSpec) -> f64 {
    if spec.scalar == Scalar::F32 {
        f32::EPSILON as f64
    } else {
        f64::EPSILON
    }
}

fn ulp_of(x: f64, f32_: bool) -> f64 {
    if f32_ {
        let a = (x as f32).abs();
        if a == 0.0 {
            return f32::MIN_POSITIVE as f64;
        }
        (f32::from_bits(a.to_bits() + 1) - a) as f64
    } else {
        let a = x.abs();
        if a == 0.0 {
            return f64::MIN_POSITIVE;
        }
        f64::from_bits(a.to_bits() + 1) - a
    }
}

/// Weights of a weighted spec as f64 (for the non-zero-weight clause).
fn weight_is_zero(spec: &DistSpec, idx: usize) -> Option<bool> {
    if spec.wty.map(|w| w.is_float()).unwrap_or(false) {
        // float trees reached through update histories may carry rounding residue (the
        // type's documentation warns about it): only integer weights are judged
        None
    } else {
        spec.n.get(idx).map(|&w| w == 0)
    }
}

pub fn weighted_len(spec: &DistSpec) -> usize {
    if spec.wty.map(|w| w.is_float()).unwrap_or(false) {
        spec.p.len()
    } else {
        spec.n.len()
    }
}

/// `None` if the output satisfies the support predicate of C03, otherwise
/// `(class, detail)`.
pub fn check(spec: &DistSpec, out: &Out) -> Option<(&'static str, String)> {
    let f32_ = spec.scalar == Scalar::F32;
    let p = &spec.p;
    match out {
        Out::F32(_) | Out::F64(_) => {
            let x = out.as_f64().unwrap();
            if x.is_nan() {
                return Some(("nan", "NaN".into()));
            }
            if x.is_infinite() {
                // documented infinities
                let allowed = match spec.family {
                    Family::Exp => p[0] == 0.0 && x > 0.0,
                    Family::Gamma => (p[0].is_infinite() || p[1].is_infinite()) && x > 0.0,
                    Family::Zeta => {
                        // proposal u_min^(-1/(s-1)) overflows
                        let (umin_ln, max_ln) =
                            if f32_ { (24.0 * std::f64::consts::LN_2, (f32::MAX as f64).ln()) } else { (53.0 * std::f64::consts::LN_2, f64::MAX.ln()) };
                        x > 0.0 && umin_ln / (p[0] - 1.0) > max_ln
                    }
                    _ => false,
                };
                if allowed {
                    return None;
                }
                return Some(("non-finite", format!("{x}")));
            }
            let bad = |d: String| Some(("out-of-support", d));
            match spec.family {
                Family::Exp1
                | Family::Exp
                | Family::Gamma
                | Family::ChiSquared
                | Family::FisherF
                | Family::LogNormal
                | Family::LogNormalMeanCv
                | Family::Weibull
                | Family::InverseGaussian => {
                    if x < 0.0 {
                        return bad(format!("{x:e} < 0"));
                    }
                }
                Family::Beta => {
                    if !(0.0..=1.0).contains(&x) {
                        return bad(format!("{x:e} outside [0,1]"));
                    }
                }
                Family::Pareto => {
                    if x < p[0] {
                        return bad(format!("{x:e} < scale {:e}", p[0]));
                    }
                }
                Family::Frechet => {
                    if x < p[0] {
                        return bad(format!("{x:e} < location {:e}", p[0]));
                    }
                }
                Family::Triangular | Family::Pert | Family::PertMean => {
                    let (lo, hi) = (p[0], p[1]);
                    let tol = 4.0 * ulp_of(lo.abs().max(hi.abs()), f32_);
                    if x < lo - tol || x > hi + tol {
                        return bad(format!("{x:e} outside [{lo:e},{hi:e}] +- 4ulp"));
                    }
                }
                Family::Poisson => {
                    if x < 0.0 || x.fract() != 0.0 {
                        return bad(format!("{x:e} is not a non-negative integer"));
                    }
                }
                Family::Zipf => {
                    if x < 1.0 || x > p[0] || x.fract() != 0.0 {
                        return bad(format!("{x:e} is not an integer in [1,{:e}]", p[0]));
                    }
                }
                Family::Zeta => {
                    if x < 1.0 || x.fract() != 0.0 {
                        return bad(format!("{x:e} is not an integer >= 1"));
                    }
                }
                _ => {}
            }
            None
        }
        Out::U64(k) => {
            let k = *k;
            match spec.family {
                Family::Binomial => {
                    if k > spec.n[0] {
                        return Some(("out-of-support", format!("{k} > n = {}", spec.n[0])));
                    }
                    if spec.p[0] == 0.0 && k != 0 || spec.p[0] == 1.0 && k != spec.n[0] {
                        return Some(("out-of-support", format!("{k} for degenerate p = {}", spec.p[0])));
                    }
                }
                Family::Hypergeometric => {
                    let (total, feat, draws) = (spec.n[0] as u128, spec.n[1] as u128, spec.n[2] as u128);
                    let lo = (draws + feat).saturating_sub(total);
                    let hi = draws.min(feat);
                    if (k as u128) < lo || (k as u128) > hi {
                        return Some(("out-of-support", format!("{k} outside [{lo},{hi}]")));
                    }
                }
                Family::Geometric => {
                    if spec.p[0] == 1.0 && k != 0 {
                        return Some(("out-of-support", format!("{k} for p = 1")));
                    }
                    if spec.p[0] == 0.0 && k != u64::MAX {
                        return Some(("out-of-support", format!("{k} for p = 0 (documented: u64::MAX)")));
                    }
                }
                _ => {}
            }
            None
        }
        Out::Idx(i) => {
            let len = weighted_len(spec);
            if *i >= len {
                return Some(("out-of-support", format!("index {i} >= len {len}")));
            }
            if weight_is_zero(spec, *i) == Some(true) {
                return Some(("zero-weight-index", format!("index {i} has weight 0")));
            }
            None
        }
        Out::V32(_) | Out::V64(_) => {
            let v = out.as_vec_f64().unwrap();
            let e = eps(spec);
            if v.iter().any(|x| x.is_nan()) {
                return Some(("nan", format!("{v:?}")));
            }
            match spec.family {
                Family::Dirichlet => {
                    if v.len() != spec.p.len() {
                        return Some(("out-of-support", format!("len {} != {}", v.len(), spec.p.len())));
                    }
                    if let Some(x) = v.iter().find(|&&x| !(0.0..=1.0).contains(&x)) {
                        return Some(("out-of-support", format!("component {x:e} outside [0,1]")));
                    }
                    let s: f64 = v.iter().sum();
                    if (s - 1.0).abs() > (v.len() as f64 + 4.0) * e {
                        return Some(("out-of-support", format!("sum {s:e} off the simplex by {:e}", s - 1.0)));
                    }
                }
                Family::UnitCircle | Family::UnitSphere => {
                    let n2: f64 = v.iter().map(|x| x * x).sum();
                    if (n2 - 1.0).abs() > 8.0 * e {
                        return Some(("out-of-support", format!("|x|^2 = {n2:e}, off by {:e}", n2 - 1.0)));
                    }
                }
                Family::UnitDisc | Family::UnitBall => {
                    let n2: f64 = v.iter().map(|x| x * x).sum();
                    if n2 > 1.0 + 4.0 * e {
                        return Some(("out-of-support", format!("|x|^2 = {n2:e} > 1")));
                    }
                }
                _ => {}
            }
            None
        }
    }
}

/// Tags describing a delivered 64-bit word (used in violation signatures).
pub fn word_tags(w: u64) -> Vec<String> {
    let mut t = Vec::new();
    for (name, bits) in [("u53", 53u32), ("u52", 52), ("u24", 24), ("u23", 23)] {
        let v = w >> (64 - bits);
        let max = (1u64 << bits) - 1;
        if v == 0 {
            t.push(format!("{name}=0"));
        } else if v == max {
            t.push(format!("{name}=max"));
        } else if v == 1u64 << (bits - 1) {
            t.push(format!("{name}=half"));
        }
    }
    // near-edge tags: uniform within 2^-10 of an end
    if w >> 54 == 0x3ff {
        t.push("u>1-2^-10".into());
    }
    if w >> 54 == 0 {
        t.push("u<2^-10".into());
    }
    if w >> 32 == 0 {
        t.push("u<2^-32".into());
    }
    if w & 0xff == 0 {
        t.push("zig:layer0".into());
    }
    let mant = w >> 12;
    if mant == 1u64 << 51 {
        t.push("zig:u=0".into());
    }
    if mant == 0 {
        t.push("zig:mant=0".into());
    }
    if mant == (1u64 << 52) - 1 {
        t.push("zig:mant=max".into());
    }
    if w == 0 {
        t.push("word=0".into());
    }
    if w == !0 {
        t.push("word=ones".into());
    }
    t
}
