//! `SimRng` — the simulator's implementation of the only seam `rand_distr` has:
//! the `Rng` trait.  One *word* is consumed per call whatever the width; the word
//! counter `pos` is simulated time.  A fault plan replaces or partially forces
//! words at chosen positions; a word budget turns a stream-consuming hang into an
//! observable event.
//!
//! Nothing in here reads a clock, the OS entropy pool or any other source of
//! nondeterminism: the stream is a pure function of (seed, fault plan).

use rand::rand_core::{Infallible, TryRng};
use serde::{Deserialize, Serialize};
use std::sync::Arc;

#[inline]
pub fn splitmix64(state: &mut u64) -> u64 {
    *state = state.wrapping_add(0x9E37_79B9_7F4A_7C15);
    let mut z = *state;
    z = (z ^ (z >> 30)).wrapping_mul(0xBF58_476D_1CE4_E5B9);
    z = (z ^ (z >> 27)).wrapping_mul(0x94D0_49BB_1331_11EB);
    z ^ (z >> 31)
}

/// Mix a list of integers into one 64-bit seed (order-sensitive).
pub fn mix(parts: &[u64]) -> u64 {
    let mut h: u64 = 0x243F_6A88_85A3_08D3;
    for &p in parts {
        h ^= p.wrapping_mul(0x9E37_79B9_7F4A_7C15);
        let mut s = h;
        h = splitmix64(&mut s) ^ s.rotate_left(17);
    }
    let mut s = h;
    splitmix64(&mut s)
}

/// What to do with the word at a fault position.
#[derive(Clone, Copy, Debug, PartialEq, Eq, Serialize, Deserialize)]
#[serde(rename_all = "snake_case")]
pub enum Inject {
    /// replace the whole word
    Word(u64),
    /// force the top `bits` bits to `value`, keep the rest of the random word
    High { bits: u8, value: u64 },
    /// force the low `bits` bits to `value`, keep the rest of the random word
    Low { bits: u8, value: u64 },
    /// force low 8 bits (ziggurat layer) and the top 52 bits (mantissa)
    Zig { layer: u8, mant: u64 },
}

impl Inject {
    #[inline]
    pub fn apply(&self, w: u64) -> u64 {
        match *self {
            Inject::Word(x) => x,
            Inject::High { bits, value } => {
                if bits >= 64 {
                    value
                } else if bits == 0 {
                    w
                } else {
                    let sh = 64 - bits as u32;
                    (value << sh) | (w & ((1u64 << sh) - 1))
                }
            }
            Inject::Low { bits, value } => {
                if bits >= 64 {
                    value
                } else if bits == 0 {
                    w
                } else {
                    let m = (1u64 << bits) - 1;
                    (w & !m) | (value & m)
                }
            }
            Inject::Zig { layer, mant } => (mant << 12) | (w & 0xf00) | layer as u64,
        }
    }
}

#[derive(Clone, Copy, Debug, PartialEq, Eq, Serialize, Deserialize)]
pub struct Fault {
    pub pos: u64,
    pub inject: Inject,
}

/// Payload of the panic raised when the word budget is exhausted.
#[derive(Debug, Clone, Copy)]
pub struct WordBudgetExceeded(pub u64);

#[derive(Clone, Debug)]
pub struct SimRng {
    s: [u64; 4],
    /// words consumed so far == simulated time
    pub pos: u64,
    /// panic with `WordBudgetExceeded` when `pos` reaches this
    pub budget: u64,
    faults: FaultList,
    next_fault: usize,
    next_fault_pos: u64,
    /// number of faults that actually fired
    pub fired: u32,
    /// optional ring buffer of the last words (pos, word, injected)
    trace: Option<Vec<(u64, u64, bool)>>,
}

const TRACE_CAP: usize = 32;

/// Fault plans are almost always one entry: keep those inline so that building and
/// cloning a stream never allocates.
#[derive(Clone, Debug)]
enum FaultList {
    Inline([Fault; 2], u8),
    Heap(Arc<[Fault]>),
}
impl FaultList {
    #[inline]
    fn as_slice(&self) -> &[Fault] {
        match self {
            FaultList::Inline(a, n) => &a[..*n as usize],
            FaultList::Heap(h) => h,
        }
    }
    fn from_vec(v: Vec<Fault>) -> Self {
        if v.len() <= 2 {
            let z = Fault { pos: u64::MAX, inject: Inject::Word(0) };
            let mut a = [z, z];
            for (i, f) in v.iter().enumerate() {
                a[i] = *f;
            }
            FaultList::Inline(a, v.len() as u8)
        } else {
            FaultList::Heap(Arc::from(v))
        }
    }
}

impl SimRng {
    pub fn new(seed: u64) -> Self {
        let mut st = seed;
        let s = [
            splitmix64(&mut st),
            splitmix64(&mut st),
            splitmix64(&mut st),
            splitmix64(&mut st),
        ];
        SimRng {
            s,
            pos: 0,
            budget: u64::MAX,
            faults: FaultList::from_vec(Vec::new()),
            next_fault: 0,
            next_fault_pos: u64::MAX,
            fired: 0,
            trace: None,
        }
    }

    /// raw generator state and position (for shipping a stream state to another process)
    pub fn raw_state(&self) -> [u64; 5] {
        [self.s[0], self.s[1], self.s[2], self.s[3], self.pos]
    }
    /// a fault-free stream continuing from a raw state
    pub fn from_raw(st: [u64; 5]) -> Self {
        let mut r = SimRng::new(0);
        r.s = [st[0], st[1], st[2], st[3]];
        r.pos = st[4];
        r
    }
    pub fn pending_faults(&self) -> usize {
        self.faults.as_slice().len() - self.next_fault
    }

    pub fn with_faults(seed: u64, mut faults: Vec<Fault>) -> Self {
        faults.sort_by_key(|f| f.pos);
        let mut r = SimRng::new(seed);
        r.next_fault_pos = faults.first().map(|f| f.pos).unwrap_or(u64::MAX);
        r.faults = FaultList::from_vec(faults);
        r
    }

    pub fn one_fault(seed: u64, pos: u64, inject: Inject) -> Self {
        let mut r = SimRng::new(seed);
        let z = Fault { pos: u64::MAX, inject: Inject::Word(0) };
        r.faults = FaultList::Inline([Fault { pos, inject }, z], 1);
        r.next_fault_pos = pos;
        r
    }

    /// Replace the fault plan of this (possibly already advanced) stream by one fault.
    #[inline]
    pub fn set_single_fault(&mut self, pos: u64, inject: Inject) {
        let z = Fault { pos: u64::MAX, inject: Inject::Word(0) };
        self.faults = FaultList::Inline([Fault { pos, inject }, z], 1);
        self.next_fault = 0;
        self.next_fault_pos = pos;
        self.fired = 0;
    }

    pub fn budget(mut self, b: u64) -> Self {
        self.budget = b;
        self
    }

    pub fn traced(mut self) -> Self {
        self.trace = Some(Vec::with_capacity(TRACE_CAP));
        self
    }

    pub fn trace_tail(&self) -> Vec<String> {
        match &self.trace {
            None => vec![],
            Some(t) => t
                .iter()
                .map(|(p, w, i)| format!("{}:{:#018x}{}", p, w, if *i { ":inj" } else { "" }))
                .collect(),
        }
    }

    pub fn faults_total(&self) -> usize {
        self.faults.as_slice().len()
    }

    /// Full state as comparable data (used by the purity check): generator state,
    /// position, index of the next pending fault.
    pub fn state(&self) -> ([u64; 4], u64, usize) {
        (self.s, self.pos, self.next_fault)
    }

    #[inline]
    fn raw(&mut self) -> u64 {
        // xoshiro256++
        let s = &mut self.s;
        let result = s[0].wrapping_add(s[3]).rotate_left(23).wrapping_add(s[0]);
        let t = s[1] << 17;
        s[2] ^= s[0];
        s[3] ^= s[1];
        s[1] ^= s[2];
        s[0] ^= s[3];
        s[2] ^= t;
        s[3] = s[3].rotate_left(45);
        result
    }

    #[inline]
    pub fn word(&mut self) -> u64 {
        if self.pos >= self.budget {
            std::panic::panic_any(WordBudgetExceeded(self.pos));
        }
        let mut w = self.raw();
        let mut inj = false;
        if self.pos == self.next_fault_pos {
            // several faults may share a position: apply in order
            let fl = self.faults.as_slice();
            while self.next_fault < fl.len() && fl[self.next_fault].pos == self.pos {
                w = fl[self.next_fault].inject.apply(w);
                self.next_fault += 1;
                self.fired += 1;
            }
            self.next_fault_pos = fl.get(self.next_fault).map(|f| f.pos).unwrap_or(u64::MAX);
            inj = true;
        }
        if let Some(t) = &mut self.trace {
            if t.len() == TRACE_CAP {
                t.remove(0);
            }
            t.push((self.pos, w, inj));
        }
        self.pos += 1;
        w
    }
}

impl TryRng for SimRng {
    type Error = Infallible;
    #[inline]
    fn try_next_u32(&mut self) -> Result<u32, Infallible> {
        // high half: "all ones" is all ones in both widths, and an f32 uniform's 24
        // significant bits are the word's top 24 bits.
        Ok((self.word() >> 32) as u32)
    }
    #[inline]
    fn try_next_u64(&mut self) -> Result<u64, Infallible> {
        Ok(self.word())
    }
    fn try_fill_bytes(&mut self, dst: &mut [u8]) -> Result<(), Infallible> {
        for chunk in dst.chunks_mut(8) {
            let w = self.word().to_le_bytes();
            chunk.copy_from_slice(&w[..chunk.len()]);
        }
        Ok(())
    }
}

// ---------------------------------------------------------------------------
// Fault catalogue (DESIGN §2.2)
// ---------------------------------------------------------------------------

/// Kind tags used in evidence.
pub const KINDS: [&str; 4] = ["F1", "F2", "F3", "F4"];

/// The boundary lattice F1 ∪ F2 ∪ F3 ∪ F4 as (kind, Inject).  Deterministic.
pub fn boundary_lattice() -> Vec<(&'static str, Inject)> {
    let mut v: Vec<(&'static str, Inject)> = Vec::new();
    // F1 word extremes
    let f1: [u64; 22] = [
        0,
        !0,
        1,
        !1,
        1 << 63,
        (1 << 63) - 1,
        (1 << 63) + 1,
        0xff,
        !0xff,
        0xfff,
        !0xfff,
        (1 << 32) - 1,
        1 << 32,
        (1 << 32) + 1,
        !0 << 32,
        (!0u64 << 32) | 1,
        0x7ff,
        !0x7ff,
        0x8000_0000_0000_0000 | 0xff,
        0x5555_5555_5555_5555,
        0xaaaa_aaaa_aaaa_aaaa,
        0x0000_0000_ffff_ffff,
    ];
    for w in f1 {
        v.push(("F1", Inject::Word(w)));
    }
    // F2 uniform edges: for each precision (53 via >>11, 52 via >>12, 24 and 23 on the
    // high u32 i.e. >>40 and >>41 of the word) the values min, min+1, half-1, half,
    // half+1, max-1, max; other bits random (High) and also all-zero / all-one tails.
    for &bits in &[53u8, 52, 24, 23] {
        let max = (1u64 << bits) - 1;
        let half = 1u64 << (bits - 1);
        for val in [0, 1, 2, half - 1, half, half + 1, max - 2, max - 1, max] {
            v.push(("F2", Inject::High { bits, value: val }));
            let sh = 64 - bits as u32;
            v.push(("F2", Inject::Word(val << sh)));
            v.push(("F2", Inject::Word((val << sh) | ((1u64 << sh) - 1))));
        }
    }
    // F3 ziggurat layer x mantissa
    let mant_max = (1u64 << 52) - 1;
    for layer in [0u8, 1, 2, 127, 128, 254, 255] {
        for mant in [0, 1, mant_max, mant_max - 1, 1u64 << 51, (1u64 << 51) - 1, (1u64 << 51) + 1] {
            v.push(("F3", Inject::Zig { layer, mant }));
        }
        v.push(("F3", Inject::Low { bits: 8, value: layer as u64 }));
    }
    // F4 integer edges: words whose widening product with a range lands on 0, range-1 and
    // inside the Lemire/Canon low-product zone.  Generic choices that work for every
    // range: tiny words (lo = w*range small -> Lemire rejection), words just below 2^64
    // (hi = range-1, lo close to 2^64-range -> Canon second draw), and the same on the
    // high u32 half.
    for k in [1u64, 2, 3, 5, 7, 100, 1000, 65535, 65536] {
        v.push(("F4", Inject::Word(k)));
        v.push(("F4", Inject::Word(!0 - k)));
        v.push(("F4", Inject::Word(k << 32)));
        v.push(("F4", Inject::Word((!0u64 - k) << 32 >> 32 << 32 | 0xffff_ffff)));
        v.push(("F4", Inject::High { bits: 32, value: k }));
        v.push(("F4", Inject::High { bits: 32, value: 0xffff_ffff - k }));
    }
    v
}

/// M equispaced mid-cell words floor((2j+1)*2^64/(2M)), j = 0..M-1.
#[inline]
pub fn lattice_word(j: u64, m: u64) -> u64 {
    (((2 * j as u128 + 1) << 64) / (2 * m as u128)) as u64
}

#[cfg(test)]
mod tests {
    use super::*;
    #[test]
    fn inject_apply() {
        assert_eq!(Inject::High { bits: 24, value: 0xffffff }.apply(0), 0xffffff << 40);
        assert_eq!(Inject::Low { bits: 8, value: 3 }.apply(!0), !0xff | 3);
        assert_eq!(Inject::Zig { layer: 0, mant: (1 << 52) - 1 }.apply(0) >> 12, (1 << 52) - 1);
    }
    #[test]
    fn lattice() {
        assert_eq!(lattice_word(0, 1), 1 << 63);
        assert_eq!(lattice_word(0, 2), 1 << 62);
    }
}
