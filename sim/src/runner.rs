//! Case runner: panic capture, progress marker + CPU watchdog, supervised worker
//! processes, result merging, evidence and replay files.

use crate::findings::{self, Known};
use serde::{Deserialize, Serialize};
use serde_json::{json, Value};
use std::cell::RefCell;
use std::collections::{BTreeMap, BTreeSet};
use std::io::{BufRead, BufReader, Write};
use std::panic::{self, AssertUnwindSafe};
use std::process::{Command, Stdio};
use std::sync::atomic::{AtomicU64, AtomicUsize, Ordering};
use std::sync::{Arc, Mutex};
use std::time::Instant;

// ---------------------------------------------------------------------------
// panic capture
// ---------------------------------------------------------------------------

thread_local! {
    static LAST_PANIC: RefCell<Option<(String, String)>> = const { RefCell::new(None) };
}

pub fn install_panic_hook() {
    panic::set_hook(Box::new(|info| {
        let msg = if let Some(s) = info.payload().downcast_ref::<&str>() {
            s.to_string()
        } else if let Some(s) = info.payload().downcast_ref::<String>() {
            s.clone()
        } else if info.payload().downcast_ref::<crate::simrng::WordBudgetExceeded>().is_some() {
            "WordBudgetExceeded".to_string()
        } else {
            "<non-string panic payload>".to_string()
        };
        let loc = info
            .location()
            .map(|l| {
                // keep the path relative to the crate so that signatures do not depend on
                // where the repository is checked out
                let f = l.file();
                let f = f.rsplit_once("/src/").map(|(_, b)| format!("src/{b}")).unwrap_or_else(|| f.to_string());
                format!("{}:{}", f, l.line())
            })
            .unwrap_or_default();
        LAST_PANIC.with(|p| *p.borrow_mut() = Some((msg, loc)));
    }));
}

pub fn take_panic() -> (String, String) {
    LAST_PANIC.with(|p| p.borrow_mut().take()).unwrap_or_default()
}
pub fn take_panic_message() -> String {
    let (m, l) = take_panic();
    format!("{m} @ {l}")
}

#[derive(Clone, Debug)]
pub enum Caught<R> {
    Ok(R),
    /// the word budget of a stream was exhausted at this position
    Budget(u64),
    Panic { msg: String, loc: String },
}

/// Run `f`, turning a panic into data.
pub fn guarded<R>(f: impl FnOnce() -> R) -> Caught<R> {
    tick();
    match panic::catch_unwind(AssertUnwindSafe(f)) {
        Ok(r) => Caught::Ok(r),
        Err(payload) => {
            let (msg, loc) = take_panic();
            if let Some(b) = payload.downcast_ref::<crate::simrng::WordBudgetExceeded>() {
                Caught::Budget(b.0)
            } else {
                Caught::Panic { msg, loc }
            }
        }
    }
}

// ---------------------------------------------------------------------------
// progress marker + watchdog
// ---------------------------------------------------------------------------

pub static PROGRESS: AtomicU64 = AtomicU64::new(0);
pub static CUR_CASE: AtomicU64 = AtomicU64::new(u64::MAX);
pub static CUR_CALL: AtomicU64 = AtomicU64::new(0);
/// incremented by the worker at the start of every case (the watchdog restarts the
/// case budget when it changes)
pub static CASE_SEQ: AtomicU64 = AtomicU64::new(0);
/// while > 0 the hang watchdog does not count (constructors and harness set-up are not
/// what C05 times; the case budget still applies)
pub static WATCH_PAUSED: AtomicU64 = AtomicU64::new(0);
/// longest CPU time without a progress tick seen by the watchdog in the current case
pub static MAX_STALL_MS: AtomicU64 = AtomicU64::new(0);
/// Run `f` with the per-call hang watchdog paused.
pub fn unwatched<R>(f: impl FnOnce() -> R) -> R {
    WATCH_PAUSED.fetch_add(1, Ordering::SeqCst);
    let r = f();
    WATCH_PAUSED.fetch_sub(1, Ordering::SeqCst);
    tick();
    r
}
static CASE_MILLIS: AtomicU64 = AtomicU64::new(600_000);
pub fn set_case_secs(s: f64) {
    CASE_MILLIS.store((s * 1000.0) as u64, Ordering::Relaxed);
}
pub fn case_secs() -> f64 {
    std::env::var("VERIF_CASE_SECS").ok().and_then(|s| s.parse().ok()).unwrap_or(CASE_MILLIS.load(Ordering::Relaxed) as f64 / 1000.0)
}

#[inline]
pub fn tick() {
    PROGRESS.fetch_add(1, Ordering::Relaxed);
}
#[inline]
pub fn mark_call(call: u64) {
    CUR_CALL.store(call, Ordering::Relaxed);
    PROGRESS.fetch_add(1, Ordering::Relaxed);
}

fn cpu_seconds() -> f64 {
    let mut ts = libc::timespec { tv_sec: 0, tv_nsec: 0 };
    // SAFETY: plain syscall filling a local struct
    unsafe {
        libc::clock_gettime(libc::CLOCK_PROCESS_CPUTIME_ID, &mut ts);
    }
    ts.tv_sec as f64 + ts.tv_nsec as f64 * 1e-9
}

static HANG_MILLIS: AtomicU64 = AtomicU64::new(8000);
pub fn set_hang_secs(s: f64) {
    HANG_MILLIS.store((s * 1000.0) as u64, Ordering::Relaxed);
}
pub fn hang_secs() -> f64 {
    std::env::var("VERIF_HANG_SECS")
        .ok()
        .and_then(|s| s.parse().ok())
        .unwrap_or(HANG_MILLIS.load(Ordering::Relaxed) as f64 / 1000.0)
}

/// Watchdog: if the progress marker does not move across `hang_secs()` seconds of
/// *process CPU time*, report a hang on stdout and exit.  CPU time (not wall time)
/// makes the verdict immune to a stalled or overloaded machine.
pub fn start_watchdog() {
    let limit = hang_secs();
    let case_limit = case_secs();
    std::thread::spawn(move || {
        let mut last = PROGRESS.load(Ordering::Relaxed);
        let mut cpu_at = cpu_seconds();
        let mut seq = CASE_SEQ.load(Ordering::Relaxed);
        let mut case_cpu_at = cpu_at;
        loop {
            std::thread::sleep(std::time::Duration::from_millis(200));
            let now = PROGRESS.load(Ordering::Relaxed);
            let cpu = cpu_seconds();
            let sq = CASE_SEQ.load(Ordering::Relaxed);
            if sq != seq {
                seq = sq;
                case_cpu_at = cpu;
            } else if cpu - case_cpu_at > case_limit {
                // every call returns, but the case as a whole does not finish: calls that
                // each stay below the hang limit but are orders of magnitude slower than
                // any legitimate sample() call (a draw-free loop of 1e9 iterations)
                let out = std::io::stdout();
                let mut o = out.lock();
                let _ = writeln!(o, "H {} {} B", CUR_CASE.load(Ordering::Relaxed), CUR_CALL.load(Ordering::Relaxed));
                let _ = o.flush();
                std::process::exit(3);
            }
            if now != last || WATCH_PAUSED.load(Ordering::Relaxed) > 0 {
                last = now;
                cpu_at = cpu;
            } else {
                // margin to the hang limit, reported in the evidence
                MAX_STALL_MS.fetch_max(((cpu - cpu_at) * 1000.0) as u64, Ordering::Relaxed);
            }
            if now == last && WATCH_PAUSED.load(Ordering::Relaxed) == 0 && cpu - cpu_at > limit {
                let out = std::io::stdout();
                let mut o = out.lock();
                let _ = writeln!(
                    o,
                    "H {} {}",
                    CUR_CASE.load(Ordering::Relaxed),
                    CUR_CALL.load(Ordering::Relaxed)
                );
                let _ = o.flush();
                std::process::exit(3);
            }
        }
    });
}

// ---------------------------------------------------------------------------
// results
// ---------------------------------------------------------------------------

#[derive(Clone, Copy, Debug, PartialEq, Eq, Serialize, Deserialize)]
#[serde(rename_all = "lowercase")]
pub enum Tier {
    Quick,
    Thorough,
}

#[derive(Clone, Debug, Serialize, Deserialize)]
pub struct Ctx {
    pub property: String,
    pub tier: Tier,
    pub seed: u64,
    pub profile: String,
}

#[derive(Clone, Debug, Default, Serialize, Deserialize)]
pub struct Violation {
    /// closed list of classes, see DESIGN appendix A
    pub class: String,
    pub detail: String,
    /// flat signature used for known-finding matching
    pub sig: BTreeMap<String, String>,
    /// engine-specific, minimised, self-contained case that reproduces it
    pub case: Value,
}

#[derive(Clone, Debug, Default, Serialize, Deserialize)]
pub struct CaseResult {
    pub index: usize,
    pub evaluations: u64,
    pub sim_words: u64,
    pub faults_injected: BTreeMap<String, u64>,
    pub faults_fired: BTreeMap<String, u64>,
    /// hashes of distinct non-trivial cases (by the engine's rule)
    pub keys: Vec<u64>,
    pub violations: Vec<Violation>,
    pub samples: Vec<Value>,
    /// counters merged by key prefix: "sum:", "max:", "min:"
    pub stats: BTreeMap<String, f64>,
    pub notes: Vec<String>,
    /// digest of this case's event log (outputs as bits, positions, outcomes)
    pub digest: u64,
    /// set by the supervisor when the worker hung / died on this case
    #[serde(default)]
    pub hangs: Vec<(String, Option<u64>)>,
}

impl CaseResult {
    pub fn new(index: usize) -> Self {
        CaseResult { index, ..Default::default() }
    }
    pub fn stat_sum(&mut self, k: &str, v: f64) {
        *self.stats.entry(format!("sum:{k}")).or_insert(0.0) += v;
    }
    pub fn stat_max(&mut self, k: &str, v: f64) {
        let e = self.stats.entry(format!("max:{k}")).or_insert(f64::NEG_INFINITY);
        if v > *e {
            *e = v;
        }
    }
    pub fn stat_min(&mut self, k: &str, v: f64) {
        let e = self.stats.entry(format!("min:{k}")).or_insert(f64::INFINITY);
        if v < *e {
            *e = v;
        }
    }
    pub fn inj(&mut self, kind: &str, n: u64) {
        *self.faults_injected.entry(kind.to_string()).or_insert(0) += n;
    }
    pub fn fired(&mut self, kind: &str, n: u64) {
        *self.faults_fired.entry(kind.to_string()).or_insert(0) += n;
    }
}

/// FNV-1a style running digest
#[derive(Clone, Copy)]
pub struct Digest(pub u64);
impl Digest {
    pub fn new() -> Self {
        Digest(0xcbf2_9ce4_8422_2325)
    }
    #[inline]
    pub fn add(&mut self, x: u64) {
        self.0 ^= x;
        self.0 = self.0.wrapping_mul(0x0000_0100_0000_01B3).rotate_left(29) ^ (x >> 32);
    }
    pub fn add_all(&mut self, xs: &[u64]) {
        for &x in xs {
            self.add(x)
        }
    }
    pub fn add_str(&mut self, s: &str) {
        for b in s.bytes() {
            self.add(b as u64)
        }
    }
}

pub fn hash_key(parts: &[&str]) -> u64 {
    let mut d = Digest::new();
    for p in parts {
        d.add_str(p);
        d.add(0xff);
    }
    d.0
}

// ---------------------------------------------------------------------------
// Engine trait
// ---------------------------------------------------------------------------

pub trait Engine: Sync {
    fn property(&self) -> &'static str;
    /// evidence level: "exploration" | "fault_enumeration"
    fn level(&self) -> &'static str;
    fn rule(&self) -> String;
    fn assumptions(&self) -> Vec<String>;
    fn components(&self) -> Value {
        json!({
            "real": ["rand_distr (all of it, hooks compiled in but inert)", "rand::distr (Uniform, StandardUniform, Open01, OpenClosed01, random_range)", "num-traits/libm float functions"],
            "stub": ["RNG engine / OS entropy -> SimRng (seeded xoshiro256++ words + injected words)", "caller -> seeded scheduler"]
        })
    }
    fn num_cases(&self, ctx: &Ctx) -> usize;
    fn run_case(&self, ctx: &Ctx, index: usize) -> CaseResult;
    /// re-run a case stored in a replay file; returns the violations observed
    fn replay(&self, ctx: &Ctx, case: &Value) -> Result<Vec<Violation>, String>;
    /// reconstruct the self-contained replay case for a worker that hung or died in
    /// case `index` at call `call` (the value last published through `mark_call`)
    fn hang_case(&self, _ctx: &Ctx, _index: usize, _call: u64) -> Option<(BTreeMap<String, String>, Value)> {
        None
    }
    /// harness self-tests that must pass before anything this engine reports is believed
    /// (exit 2 otherwise)
    fn preflight(&self) -> Result<String, String> {
        Ok(String::new())
    }
    /// one-line description of a case (debugging aid)
    fn describe(&self, _ctx: &Ctx, _index: usize) -> String {
        String::new()
    }
    /// CPU seconds without progress after which a call counts as hung
    fn hang_secs(&self) -> f64 {
        8.0
    }
    /// CPU seconds after which a whole case counts as not finishing (backstop for calls
    /// that are individually below the hang limit); about 20x the slowest legitimate case
    fn case_secs(&self, ctx: &Ctx) -> f64 {
        match ctx.tier {
            Tier::Quick => 120.0,
            Tier::Thorough => 3600.0,
        }
    }
    /// a stage that runs once in the supervisor after all cases (e.g. schedules explored by
    /// an external seeded scheduler); its result is merged like one more case.  Err = harness
    /// error (exit 2).
    fn post_stage(&self, _ctx: &Ctx, _index: usize) -> Result<Option<CaseResult>, String> {
        Ok(None)
    }
    /// restart the worker process after every case (engines whose oracle is about
    /// process-wide hidden state)
    fn fresh_worker_per_case(&self) -> bool {
        false
    }
    /// whether a violation class counts for this engine's property
    fn judges(&self, _class: &str) -> bool {
        true
    }
    /// whether the space was enumerated completely
    fn exhaustive(&self, _ctx: &Ctx) -> bool {
        false
    }
    /// extra evidence keys computed from merged stats
    fn extra_evidence(&self, _ctx: &Ctx, _stats: &BTreeMap<String, f64>) -> Value {
        json!({})
    }
}

// ---------------------------------------------------------------------------
// worker side
// ---------------------------------------------------------------------------

pub fn worker_main(engine: &dyn Engine, ctx: &Ctx) -> i32 {
    install_panic_hook();
    set_hang_secs(engine.hang_secs());
    set_case_secs(engine.case_secs(ctx));
    start_watchdog();
    let stdin = std::io::stdin();
    let stdout = std::io::stdout();
    for line in stdin.lock().lines() {
        let line = match line {
            Ok(l) => l,
            Err(_) => break,
        };
        let line = line.trim();
        if line.is_empty() {
            continue;
        }
        if line == "Q" {
            break;
        }
        let idx: usize = match line.parse() {
            Ok(i) => i,
            Err(_) => return 2,
        };
        CUR_CASE.store(idx as u64, Ordering::Relaxed);
        CUR_CALL.store(0, Ordering::Relaxed);
        CASE_SEQ.fetch_add(1, Ordering::Relaxed);
        tick();
        let cpu0 = cpu_seconds();
        // a panic escaping an engine is a harness error, but report it as data
        let res = panic::catch_unwind(AssertUnwindSafe(|| engine.run_case(ctx, idx)));
        let res = res.map(|mut r| {
            r.stat_max("longest_stall_without_progress_cpu_s(limit_is_hang_secs)", MAX_STALL_MS.swap(0, Ordering::Relaxed) as f64 / 1000.0);
            r.stat_max("slowest_case_cpu_s", cpu_seconds() - cpu0);
            r
        });
        let mut o = stdout.lock();
        match res {
            Ok(r) => {
                let s = serde_json::to_string(&r).unwrap();
                let _ = writeln!(o, "R {s}");
            }
            Err(_) => {
                let _ = writeln!(o, "E {} {}", idx, take_panic_message().replace('\n', " "));
            }
        }
        let _ = o.flush();
    }
    0
}

// ---------------------------------------------------------------------------
// supervisor side
// ---------------------------------------------------------------------------

pub struct RunOutput {
    pub results: Vec<CaseResult>,
    pub harness_errors: Vec<String>,
    pub wall_s: f64,
}

fn workers_wanted() -> usize {
    std::env::var("VERIF_WORKERS")
        .ok()
        .and_then(|s| s.parse().ok())
        .unwrap_or_else(|| std::thread::available_parallelism().map(|n| n.get()).unwrap_or(4))
        .max(1)
}

/// Run all cases in supervised worker processes. Results are keyed by case index.
pub fn supervise(ctx: &Ctx, n_cases: usize, only: Option<Vec<usize>>) -> RunOutput {
    let t0 = Instant::now();
    let order: Vec<usize> = only.unwrap_or_else(|| (0..n_cases).collect());
    let order = Arc::new(order);
    let next = Arc::new(AtomicUsize::new(0));
    let results: Arc<Mutex<BTreeMap<usize, CaseResult>>> = Arc::new(Mutex::new(BTreeMap::new()));
    let errors: Arc<Mutex<Vec<String>>> = Arc::new(Mutex::new(Vec::new()));
    let nw = workers_wanted().min(order.len().max(1));
    let exe = std::env::current_exe().expect("current_exe");
    let fresh_per_case = crate::engine::engine_for(&ctx.property).map(|e| e.fresh_worker_per_case()).unwrap_or(false);
    let mut handles = Vec::new();
    for _w in 0..nw {
        let order = order.clone();
        let next = next.clone();
        let results = results.clone();
        let errors = errors.clone();
        let exe = exe.clone();
        let ctx = ctx.clone();
        handles.push(std::thread::spawn(move || {
            let skips: std::cell::RefCell<Vec<(usize, u64)>> = std::cell::RefCell::new(Vec::new());
            let spawn = || {
                let sk: Vec<String> = skips.borrow().iter().map(|(a, b)| format!("{a}:{b}")).collect();
                Command::new(&exe)
                    .arg("worker")
                    .arg(&ctx.property)
                    .arg("--tier")
                    .arg(match ctx.tier {
                        Tier::Quick => "quick",
                        Tier::Thorough => "thorough",
                    })
                    .arg("--seed")
                    .arg(ctx.seed.to_string())
                    .arg("--profile")
                    .arg(&ctx.profile)
                    .env("VERIF_SKIP", sk.join(","))
                    .stdin(Stdio::piped())
                    .stdout(Stdio::piped())
                    .stderr(Stdio::inherit())
                    .spawn()
            };
            let mut child = match spawn() {
                Ok(c) => c,
                Err(e) => {
                    errors.lock().unwrap().push(format!("spawn worker: {e}"));
                    return;
                }
            };
            let mut cin = child.stdin.take().unwrap();
            let mut cout = BufReader::new(child.stdout.take().unwrap());
            'cases: loop {
                let k = next.fetch_add(1, Ordering::SeqCst);
                if k >= order.len() {
                    break;
                }
                let idx = order[k];
                let mut hangs: Vec<(String, Option<u64>)> = Vec::new();
                // a case is retried after a hang / crash with the offending call skipped,
                // so that one hang does not hide the rest of the configuration
                loop {
                    if writeln!(cin, "{idx}").and_then(|_| cin.flush()).is_err() {
                        errors.lock().unwrap().push(format!("worker pipe closed before case {idx}"));
                        break 'cases;
                    }
                    let mut line = String::new();
                    let t_case = Instant::now();
                    let n = cout.read_line(&mut line).unwrap_or(0);
                    if std::env::var("VERIF_VERBOSE").is_ok() && t_case.elapsed().as_secs_f64() > 1.0 {
                        eprintln!("slow case {idx}: {:.1}s", t_case.elapsed().as_secs_f64());
                    }
                    let mut respawn = false;
                    let mut done = true;
                    if n == 0 {
                        // worker died without a word: abort / stack overflow / OOM kill.
                        let status = child.wait().map(|s| s.to_string()).unwrap_or_default();
                        hangs.push((format!("crash: worker died ({status})"), None));
                        respawn = true;
                    } else if let Some(rest) = line.strip_prefix("R ") {
                        match serde_json::from_str::<CaseResult>(rest.trim()) {
                            Ok(mut r) => {
                                r.hangs = std::mem::take(&mut hangs);
                                results.lock().unwrap().insert(idx, r);
                            }
                            Err(e) => errors.lock().unwrap().push(format!("case {idx}: bad result line: {e}")),
                        }
                    } else if let Some(rest) = line.strip_prefix("H ") {
                        let call: Option<u64> = rest.split_whitespace().nth(1).and_then(|s| s.parse().ok());
                        let budget = rest.split_whitespace().nth(2) == Some("B");
                        if budget {
                            hangs.push((format!("hang(case budget): case {idx} did not finish within {} CPU-s although every call returned (in call {} when stopped)", case_secs(), call.unwrap_or(0)), None));
                        } else {
                            hangs.push((format!("hang: no progress in {} CPU-s (case call {})", hang_secs(), rest.trim()), call));
                        }
                        let _ = child.wait();
                        respawn = true;
                        if let (Some(c), false) = (call, budget) {
                            if hangs.len() <= 3 {
                                skips.borrow_mut().push((idx, c));
                                done = false;
                            }
                        }
                    } else if let Some(rest) = line.strip_prefix("E ") {
                        errors.lock().unwrap().push(format!("engine panicked in case {}", rest.trim()));
                    } else {
                        errors.lock().unwrap().push(format!("case {idx}: unexpected worker line {line:?}"));
                    }
                    if fresh_per_case && !respawn {
                        let _ = writeln!(cin, "Q");
                        let _ = cin.flush();
                        let _ = child.wait();
                        respawn = true;
                    }
                    if respawn {
                        child = match spawn() {
                            Ok(c) => c,
                            Err(e) => {
                                errors.lock().unwrap().push(format!("respawn worker: {e}"));
                                return;
                            }
                        };
                        cin = child.stdin.take().unwrap();
                        cout = BufReader::new(child.stdout.take().unwrap());
                    }
                    if done {
                        if !hangs.is_empty() {
                            let mut r = CaseResult::new(idx);
                            r.hangs = std::mem::take(&mut hangs);
                            r.notes.push("case abandoned after repeated hangs/crash; its remaining runs were not explored".into());
                            results.lock().unwrap().insert(idx, r);
                        }
                        break;
                    }
                }
            }
            let _ = writeln!(cin, "Q");
            drop(cin);
            let _ = child.wait();
        }));
    }
    for h in handles {
        let _ = h.join();
    }
    let results = Arc::try_unwrap(results).ok().unwrap().into_inner().unwrap();
    let mut errs = Arc::try_unwrap(errors).ok().unwrap().into_inner().unwrap();
    for &i in order.iter() {
        if !results.contains_key(&i) {
            errs.push(format!("case {i}: no result"));
        }
    }
    errs.sort();
    RunOutput { results: results.into_values().collect(), harness_errors: errs, wall_s: t0.elapsed().as_secs_f64() }
}

// ---------------------------------------------------------------------------
// merge, findings, replay files, evidence
// ---------------------------------------------------------------------------

/// Digest of a whole run's event log, keyed by case index (never by completion order).
pub fn run_digest(results: &[CaseResult]) -> u64 {
    let mut digest = Digest::new();
    for r in results {
        digest.add(r.index as u64);
        digest.add(r.digest);
        for k in &r.keys {
            digest.add(*k);
        }
        digest.add(r.evaluations);
        digest.add(r.sim_words);
        for v in &r.violations {
            digest.add_str(&v.class);
            digest.add_str(&v.detail);
        }
    }
    digest.0
}

pub fn verif_dir() -> std::path::PathBuf {
    std::env::var("VERIF_DIR").map(Into::into).unwrap_or_else(|_| std::env::current_dir().unwrap())
}

fn harness_rev() -> String {
    Command::new("git")
        .arg("-C")
        .arg(verif_dir())
        .args(["rev-parse", "--short", "HEAD"])
        .output()
        .ok()
        .and_then(|o| String::from_utf8(o.stdout).ok())
        .map(|s| s.trim().to_string())
        .unwrap_or_default()
}

/// Re-execute a replay file in a fresh process; Ok(true) iff it exits 1 (reproduced).
fn replay_reproduces(path: &str) -> Result<bool, String> {
    let exe = std::env::current_exe().map_err(|e| e.to_string())?;
    let out = Command::new(exe).arg("replay").arg(path).stdout(Stdio::null()).stderr(Stdio::null()).status().map_err(|e| e.to_string())?;
    Ok(out.code() == Some(1))
}

pub fn write_replay(ctx: &Ctx, engine: &dyn Engine, v: &Violation) -> String {
    let dir = verif_dir().join("replays").join(&ctx.property);
    let _ = std::fs::create_dir_all(&dir);
    let body = json!({
        "format": 1,
        "property": ctx.property,
        "engine": engine.property(),
        "profile": ctx.profile,
        "harness_rev": harness_rev(),
        "verif_seed": ctx.seed,
        "tier": ctx.tier,
        "case": v.case,
        "violation": {"class": v.class, "detail": v.detail, "sig": v.sig},
    });
    let mut d = Digest::new();
    d.add_str(&serde_json::to_string(&json!({"case": v.case, "class": v.class})).unwrap());
    let path = dir.join(format!("{:016x}.json", d.0));
    let _ = std::fs::write(&path, serde_json::to_string_pretty(&body).unwrap());
    path.to_string_lossy().to_string()
}

/// Full run of one property: supervise, merge, classify, write evidence. Returns exit code.
pub fn run_property(engine: &dyn Engine, ctx: &Ctx) -> i32 {
    let t0 = Instant::now();
    set_hang_secs(engine.hang_secs());
    set_case_secs(engine.case_secs(ctx));
    match engine.preflight() {
        Ok(msg) => {
            if !msg.is_empty() {
                println!("verif-sim: preflight: {msg}");
            }
        }
        Err(e) => {
            eprintln!("HARNESS-ERROR: preflight failed: {e}");
            return 2;
        }
    }
    let n = engine.num_cases(ctx);
    println!(
        "verif-sim: property={} tier={:?} VERIF_SEED={} profile={} cases={} workers={}",
        ctx.property,
        ctx.tier,
        ctx.seed,
        ctx.profile,
        n,
        workers_wanted().min(n.max(1))
    );
    let mut out = supervise(ctx, n, None);
    match engine.post_stage(ctx, n) {
        Ok(Some(r)) => out.results.push(r),
        Ok(None) => {}
        Err(e) => out.harness_errors.push(format!("post stage: {e}")),
    }
    finish_run(engine, ctx, out, t0, true)
}

pub fn finish_run(engine: &dyn Engine, ctx: &Ctx, out: RunOutput, t0: Instant, write_evidence: bool) -> i32 {
    let known = match findings::load(&verif_dir().join("known_findings.json")) {
        Ok(k) => k,
        Err(e) => {
            eprintln!("HARNESS-ERROR: known_findings.json: {e}");
            return 2;
        }
    };
    let mut evaluations = 0u64;
    let mut sim_words = 0u64;
    let mut inj: BTreeMap<String, u64> = BTreeMap::new();
    let mut fired: BTreeMap<String, u64> = BTreeMap::new();
    let mut keys: BTreeSet<u64> = BTreeSet::new();
    let mut stats: BTreeMap<String, f64> = BTreeMap::new();
    let mut samples: Vec<Value> = Vec::new();
    let mut notes: BTreeMap<String, u64> = BTreeMap::new();
    let mut digest = Digest::new();
    let mut new_violations: Vec<Violation> = Vec::new();
    let mut known_seen: BTreeMap<String, (Known, u64)> = BTreeMap::new();

    for r in &out.results {
        evaluations += r.evaluations;
        sim_words += r.sim_words;
        for (k, v) in &r.faults_injected {
            *inj.entry(k.clone()).or_insert(0) += v;
        }
        for (k, v) in &r.faults_fired {
            *fired.entry(k.clone()).or_insert(0) += v;
        }
        keys.extend(r.keys.iter().copied());
        for (k, v) in &r.stats {
            if k.starts_with("sum:") {
                *stats.entry(k.clone()).or_insert(0.0) += v;
            } else if k.starts_with("max:") {
                let e = stats.entry(k.clone()).or_insert(f64::NEG_INFINITY);
                if *v > *e {
                    *e = *v
                }
            } else if k.starts_with("min:") {
                let e = stats.entry(k.clone()).or_insert(f64::INFINITY);
                if *v < *e {
                    *e = *v
                }
            } else {
                stats.insert(k.clone(), *v);
            }
        }
        if samples.len() < 12 {
            for s in r.samples.iter().take(2) {
                samples.push(s.clone());
            }
        }
        for nt in &r.notes {
            *notes.entry(nt.clone()).or_insert(0) += 1;
        }
        digest.add(r.index as u64);
        digest.add(r.digest);
        for k in &r.keys {
            digest.add(*k);
        }
        let mut vs = r.violations.clone();
        for (h, call) in &r.hangs {
            // the worker could not report which run it was in: the engine reconstructs
            // the self-contained case from (case index, published call number)
            let class = if h.starts_with("hang") { "hang" } else { "crash" };
            let (mut sig, case) = call
                .and_then(|c| engine.hang_case(ctx, r.index, c))
                .unwrap_or_else(|| (BTreeMap::new(), json!({"rerun_case_index": r.index, "tier": ctx.tier, "seed": ctx.seed})));
            if call.is_none() {
                sig.insert("case".to_string(), engine.describe(ctx, r.index));
            }
            sig.insert("class".to_string(), class.to_string());
            vs.push(Violation { class: class.to_string(), detail: h.clone(), sig, case });
        }
        for v in vs {
            if !engine.judges(&v.class) {
                *notes.entry(format!("event of class {} (judged by another property)", v.class)).or_insert(0) += 1;
                continue;
            }
            match findings::matches(&known, &ctx.property, &v) {
                Some(k) => {
                    known_seen.entry(k.id.clone()).or_insert((k.clone(), 0)).1 += 1;
                }
                None => new_violations.push(v),
            }
        }
    }

    for (id, (k, cnt)) in &known_seen {
        println!("KNOWN-FINDING: property={} {} [{}; seen {} times this run]", ctx.property, k.description, id, cnt);
    }
    // distinct new violations by signature
    let mut by_sig: BTreeMap<String, Violation> = BTreeMap::new();
    for v in new_violations {
        // one replay per (everything except the word tags / regime): those two only
        // matter for known-finding matching, which has already happened
        let mut k = v.sig.clone();
        k.remove("tags");
        k.remove("regime");
        let key = serde_json::to_string(&k).unwrap();
        by_sig.entry(key).or_insert(v);
    }
    let mut replay_paths = Vec::new();
    let mut harness_errors = out.harness_errors.clone();
    for v in by_sig.values() {
        let path = write_replay(ctx, engine, v);
        println!("VIOLATION property={} replay={}", ctx.property, path);
        println!("  class={} detail={}", v.class, v.detail);
        // the replay file is re-executed in a fresh process before the violation is
        // believed: if it does not reproduce, the harness itself is not deterministic
        if std::env::var("VERIF_NO_REPLAY_CHECK").is_err() && !v.case.get("rerun_case_index").is_some() {
            match replay_reproduces(&path) {
                Ok(true) => println!("  replayed in a fresh process: reproduced"),
                Ok(false) => {
                    println!("  replayed in a fresh process: NOT reproduced");
                    harness_errors.push(format!("replay {path} did not reproduce the violation (harness determinism broken?)"));
                }
                Err(e) => harness_errors.push(format!("could not run the replay of {path}: {e}")),
            }
        }
        replay_paths.push(path);
    }
    let out = RunOutput { results: out.results, harness_errors, wall_s: out.wall_s };
    for e in &out.harness_errors {
        eprintln!("HARNESS-ERROR: {e}");
    }

    let wall = t0.elapsed().as_secs_f64();
    if write_evidence {
        let runs = out.results.len() as u64;
        let note_list: Vec<Value> = notes.iter().map(|(k, v)| json!({"note": k, "cases": v})).collect();
        let mut coverage = json!({
            "evaluations": evaluations,
            "distinct_nontrivial": keys.len(),
            "rule": engine.rule(),
            "samples": samples,
            "exhaustive": engine.exhaustive(ctx),
            "runs": runs,
            "runs_per_hour": if wall > 0.0 { (evaluations as f64 / wall * 3600.0) as u64 } else { 0 },
            "cases_per_hour": if wall > 0.0 { (runs as f64 / wall * 3600.0) as u64 } else { 0 },
            "seeds": format!("every stream seed is derived from VERIF_SEED={} by splitmix (case index, stream id)", ctx.seed),
            "sim_words": sim_words,
            "simulated_time": format!("{} RNG words consumed (the word counter is the simulated clock)", sim_words),
            "faults_injected": inj,
            "faults_fired": fired,
            "states_reached": keys.len(),
            "stats": stats,
            "notes": note_list,
            "known_findings_seen": known_seen.keys().collect::<Vec<_>>(),
            "new_violation_replays": replay_paths,
            "event_log_digest": format!("{:016x}", digest.0),
            "profile": ctx.profile,
            "components": engine.components(),
            "harness_errors": out.harness_errors,
        });
        let extra = engine.extra_evidence(ctx, &stats);
        if let (Some(c), Some(e)) = (coverage.as_object_mut(), extra.as_object()) {
            for (k, v) in e {
                c.insert(k.clone(), v.clone());
            }
        }
        let ev = json!({
            "property_id": ctx.property,
            "tier": ctx.tier,
            "seed": ctx.seed,
            "level": engine.level(),
            "coverage": coverage,
            "assumptions": engine.assumptions(),
            "wall_s": (wall * 1000.0).round() / 1000.0,
            "violations": by_sig.len(),
        });
        let dir = verif_dir().join("evidence");
        let _ = std::fs::create_dir_all(&dir);
        let path = dir.join(format!("{}{}.json", ctx.property, std::env::var("VERIF_EVIDENCE_SUFFIX").unwrap_or_default()));
        if let Err(e) = std::fs::write(&path, serde_json::to_string_pretty(&ev).unwrap()) {
            eprintln!("HARNESS-ERROR: cannot write evidence: {e}");
            return 2;
        }
    }
    println!(
        "verif-sim: property={} done: cases={} evaluations={} distinct={} words={} digest={:016x} violations={} known={} wall={:.1}s",
        ctx.property,
        out.results.len(),
        evaluations,
        keys.len(),
        sim_words,
        digest.0,
        by_sig.len(),
        known_seen.len(),
        wall
    );
    if out.harness_errors.iter().any(|e| e.contains("did not reproduce")) {
        2
    } else if !by_sig.is_empty() {
        1
    } else if !out.harness_errors.is_empty() {
        2
    } else {
        0
    }
}
