//! Weight types of the weighted indices, behind one trait so that the history and law
//! engines are written once.

use crate::registry::WTy;
use rand_distr::uniform::SampleUniform;
use rand_distr::weighted::{AliasableWeight, Weight};
use std::fmt::Debug;
use std::ops::SubAssign;

/// A weight literal, lossless for every type, as stored in replay files.
/// Syntax: decimal integer (possibly negative), or a float written by `{:e}`, or
/// "nan" / "inf".
pub type Lit = String;

pub trait Wt:
    Copy + Debug + PartialEq + PartialOrd + Send + Sync + 'static + AliasableWeight + Weight + SubAssign + SampleUniform
{
    const TY: WTy;
    const IS_FLOAT: bool;
    const SIGNED: bool;
    fn parse(l: &str) -> Option<Self>;
    fn lit(self) -> Lit;
    fn to_f64(self) -> f64;
    /// checked addition in the type (floats: plain addition)
    fn add_checked(self, o: Self) -> Option<Self>;
    fn max_val() -> Self;
    fn zero_val() -> Self;
    fn is_nan_val(self) -> bool {
        false
    }
    fn bits_eq(self, o: Self) -> bool;
    /// exact value as u128 for non-negative integers
    fn as_u128(self) -> Option<u128>;
    fn from_u128(x: u128) -> Option<Self>;
    fn from_f64v(x: f64) -> Self;
    fn div_u32(self, n: u32) -> Self;
}

macro_rules! wt_int {
    ($t:ty, $ty:expr, $signed:expr) => {
        impl Wt for $t {
            const TY: WTy = $ty;
            const IS_FLOAT: bool = false;
            const SIGNED: bool = $signed;
            fn parse(l: &str) -> Option<Self> {
                l.parse::<$t>().ok()
            }
            fn lit(self) -> Lit {
                self.to_string()
            }
            fn to_f64(self) -> f64 {
                self as f64
            }
            fn add_checked(self, o: Self) -> Option<Self> {
                self.checked_add(o)
            }
            fn max_val() -> Self {
                <$t>::MAX
            }
            fn zero_val() -> Self {
                0
            }
            fn bits_eq(self, o: Self) -> bool {
                self == o
            }
            fn as_u128(self) -> Option<u128> {
                u128::try_from(self).ok()
            }
            fn from_u128(x: u128) -> Option<Self> {
                <$t>::try_from(x).ok()
            }
            fn from_f64v(x: f64) -> Self {
                x as $t
            }
            fn div_u32(self, n: u32) -> Self {
                match <$t>::try_from(n) {
                    Ok(d) if d != 0 => self / d,
                    _ => 0,
                }
            }
        }
    };
}
wt_int!(u8, WTy::U8, false);
wt_int!(u16, WTy::U16, false);
wt_int!(u32, WTy::U32, false);
wt_int!(u64, WTy::U64, false);
wt_int!(u128, WTy::U128, false);
wt_int!(usize, WTy::Usize, false);
wt_int!(i8, WTy::I8, true);
wt_int!(i16, WTy::I16, true);
wt_int!(i32, WTy::I32, true);
wt_int!(i64, WTy::I64, true);
wt_int!(i128, WTy::I128, true);

macro_rules! wt_float {
    ($t:ty, $ty:expr) => {
        impl Wt for $t {
            const TY: WTy = $ty;
            const IS_FLOAT: bool = true;
            const SIGNED: bool = true;
            fn parse(l: &str) -> Option<Self> {
                match l {
                    "nan" => Some(<$t>::NAN),
                    "inf" => Some(<$t>::INFINITY),
                    _ => l.parse::<$t>().ok(),
                }
            }
            fn lit(self) -> Lit {
                if self.is_nan() {
                    "nan".into()
                } else if self.is_infinite() {
                    if self > 0.0 { "inf".into() } else { "-inf".into() }
                } else {
                    format!("{:e}", self)
                }
            }
            fn to_f64(self) -> f64 {
                self as f64
            }
            fn add_checked(self, o: Self) -> Option<Self> {
                Some(self + o)
            }
            fn max_val() -> Self {
                <$t>::MAX
            }
            fn zero_val() -> Self {
                0.0
            }
            fn is_nan_val(self) -> bool {
                self.is_nan()
            }
            fn bits_eq(self, o: Self) -> bool {
                self.to_bits() == o.to_bits()
            }
            fn as_u128(self) -> Option<u128> {
                None
            }
            fn from_u128(x: u128) -> Option<Self> {
                Some(x as $t)
            }
            fn from_f64v(x: f64) -> Self {
                x as $t
            }
            fn div_u32(self, n: u32) -> Self {
                self / n as $t
            }
        }
    };
}
wt_float!(f32, WTy::F32);
wt_float!(f64, WTy::F64);

/// Dispatch a generic function over a runtime weight type.
#[macro_export]
macro_rules! with_wty {
    ($wty:expr, $f:ident, $($args:expr),*) => {
        match $wty {
            $crate::registry::WTy::U8 => $f::<u8>($($args),*),
            $crate::registry::WTy::U16 => $f::<u16>($($args),*),
            $crate::registry::WTy::U32 => $f::<u32>($($args),*),
            $crate::registry::WTy::U64 => $f::<u64>($($args),*),
            $crate::registry::WTy::U128 => $f::<u128>($($args),*),
            $crate::registry::WTy::Usize => $f::<usize>($($args),*),
            $crate::registry::WTy::I8 => $f::<i8>($($args),*),
            $crate::registry::WTy::I16 => $f::<i16>($($args),*),
            $crate::registry::WTy::I32 => $f::<i32>($($args),*),
            $crate::registry::WTy::I64 => $f::<i64>($($args),*),
            $crate::registry::WTy::I128 => $f::<i128>($($args),*),
            $crate::registry::WTy::F32 => $f::<f32>($($args),*),
            $crate::registry::WTy::F64 => $f::<f64>($($args),*),
        }
    };
}
