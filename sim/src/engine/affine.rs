//! C07 — location and scale act as exact affine maps on a fixed stream.
//!
//! Replica agreement: a *base* object (location 0 / scale 1, or the untransformed
//! parameter vector) and a *target* object that differs only in location / scale are fed
//! clones of one stream (random, and single-word-adversarial at positions 0..7).  The
//! target's output must equal the map applied to the base output — bit-exactly where
//! the map is one correctly rounded multiply-add in the scalar type, within a stated
//! ulp bound otherwise — and both must have consumed the same number of words.

use crate::envelope::{below, lin, logu, u01};
use crate::registry::{build_caught, DistSpec, Family, Obj, Out, Scalar};
use crate::runner::{guarded, hash_key, mark_call, CaseResult, Caught, Ctx, Digest, Engine, Tier, Violation};
use crate::simrng::{boundary_lattice, mix, Fault, Inject, SimRng};
use num_traits::Float;
use rand_distr::{LogNormal, Normal};
use serde::{Deserialize, Serialize};
use serde_json::{json, Value};
use std::collections::{BTreeMap, BTreeSet};

#[derive(Clone, Debug, Serialize, Deserialize)]
pub struct AffineCase {
    pub kind: String, // "affine-pair" | "zscore"
    pub base: DistSpec,
    pub target: DistSpec,
    pub seed: u64,
    #[serde(default)]
    pub faults: Vec<Fault>,
    pub calls: u64,
    /// for kind "zscore": bit pattern of z (f64 bits; f32 specs use the f32 value widened)
    #[serde(default)]
    pub z_bits: u64,
}

// arithmetic in the scalar type of the spec -----------------------------------------
fn rnd(s: Scalar, x: f64) -> f64 {
    if s == Scalar::F32 {
        x as f32 as f64
    } else {
        x
    }
}
fn mul(s: Scalar, a: f64, b: f64) -> f64 {
    if s == Scalar::F32 {
        ((a as f32) * (b as f32)) as f64
    } else {
        a * b
    }
}
fn add(s: Scalar, a: f64, b: f64) -> f64 {
    if s == Scalar::F32 {
        ((a as f32) + (b as f32)) as f64
    } else {
        a + b
    }
}
fn sub(s: Scalar, a: f64, b: f64) -> f64 {
    if s == Scalar::F32 {
        ((a as f32) - (b as f32)) as f64
    } else {
        a - b
    }
}
fn div(s: Scalar, a: f64, b: f64) -> f64 {
    if s == Scalar::F32 {
        ((a as f32) / (b as f32)) as f64
    } else {
        a / b
    }
}
fn exp_nt(s: Scalar, a: f64) -> f64 {
    // the crate calls num-traits' Float::exp (libm); std's exp differs in the last bit
    if s == Scalar::F32 {
        Float::exp(a as f32) as f64
    } else {
        Float::exp(a)
    }
}
fn ulp(s: Scalar, x: f64) -> f64 {
    if s == Scalar::F32 {
        let a = (x as f32).abs();
        if !a.is_finite() {
            return f64::INFINITY;
        }
        (f32::from_bits(a.to_bits() + 1) - a) as f64
    } else {
        let a = x.abs();
        if !a.is_finite() {
            return f64::INFINITY;
        }
        f64::from_bits(a.to_bits() + 1) - a
    }
}
fn eps(s: Scalar) -> f64 {
    if s == Scalar::F32 {
        f32::EPSILON as f64
    } else {
        f64::EPSILON
    }
}
fn tiny_or_huge(s: Scalar, x: f64) -> bool {
    let (lo, hi) = if s == Scalar::F32 { (f32::MIN_POSITIVE as f64 * 16.0, f32::MAX as f64 / 16.0) } else { (f64::MIN_POSITIVE * 16.0, f64::MAX / 16.0) };
    x != 0.0 && (x.abs() < lo || x.abs() > hi)
}

/// What the oracle needs besides the base output.
enum Aux {
    None,
    /// z from Normal(0,1) on a clone (LogNormal)
    Z,
    /// the StandardUniform draw f on a clone (Triangular)
    U,
}

/// Expected target output and tolerance (absolute), given the base output.
/// Returns None when the pair is not judged (subnormal / overflow region).
fn expected(base: &DistSpec, target: &DistSpec, xb: f64, aux: f64) -> Option<(f64, f64)> {
    let s = target.scalar;
    let p = &target.p;
    let b = &base.p;
    let e = match target.family {
        Family::Normal => (add(s, p[0], mul(s, p[1], xb)), 0.0),
        Family::Cauchy => (add(s, p[0], mul(s, p[1], xb)), 0.0),
        // base (0,1): xb = 0 - 1*g = -g; target = loc - scale*g
        Family::Gumbel => (sub(s, p[0], mul(s, p[1], -xb)), 0.0),
        Family::Frechet => (add(s, p[0], mul(s, p[1], xb)), 0.0),
        Family::SkewNormal => (add(s, mul(s, xb, p[1]), p[0]), 0.0),
        Family::Exp => (mul(s, xb, div(s, 1.0, p[0])), 0.0),
        Family::Weibull | Family::Pareto => (mul(s, p[0], xb), 0.0),
        Family::Gamma => {
            let shape = p[0];
            if shape == 1.0 {
                (mul(s, xb, div(s, 1.0, div(s, 1.0, p[1]))), 0.0)
            } else if shape < 1.0 {
                (mul(s, xb, p[1]), 0.0)
            } else {
                // v*(d*scale) versus (v*d)*scale
                let x = mul(s, xb, p[1]);
                (x, 3.0 * ulp(s, x))
            }
        }
        Family::LogNormal => (exp_nt(s, add(s, p[0], mul(s, p[1], aux))), 0.0),
        Family::InverseGaussian => {
            // scale family: IG(c*mean, c*shape) = c * IG(mean, shape)
            let c = p[0] / b[0];
            let x = mul(s, xb, rnd(s, c));
            let pow2 = c.log2().fract() == 0.0;
            // general scalings round the parameters; the cancellation in
            // y - sqrt(4*l*y + y^2) amplifies that by (mu + mu^2 z^2 / lambda) / x
            let (mu, lam, z) = (p[0], p[1], aux);
            // ... and the second root mu^2/x carries the first root's error times (x/mu)^2
            let second = (x / mu).powi(2).max(1.0);
            (x, if pow2 { 2.0 * ulp(s, x) } else { (64.0 * ulp(s, x) + 8.0 * eps(s) * (mu + mu * mu * z * z / lam)) * second })
        }
        Family::Triangular => {
            // base (0,1,m): target min + c*xb with c = max-min
            let c = sub(s, p[1], p[0]);
            let x = add(s, p[0], mul(s, c, xb));
            let f = aux;
            let tol = 4.0 * ulp(s, p[0].abs().max(mul(s, c, xb).abs()).max(x.abs())) + eps(s) * c.abs() * (4.0 + 1.0 / (1.0 - f).max(1e-300).sqrt());
            (x, tol)
        }
        Family::Pert => {
            let range = sub(s, p[1], p[0]);
            (add(s, mul(s, xb, range), p[0]), 0.0)
        }
        _ => return None,
    };
    if tiny_or_huge(s, e.0) || tiny_or_huge(s, xb) || !e.0.is_finite() || !xb.is_finite() {
        return None;
    }
    Some(e)
}

fn aux_kind(f: Family) -> Aux {
    match f {
        Family::LogNormal | Family::InverseGaussian => Aux::Z,
        Family::Triangular => Aux::U,
        _ => Aux::None,
    }
}

pub struct PairStats {
    pub calls: u64,
    pub words: u64,
    pub judged: u64,
    pub unjudged: u64,
    pub fired: u64,
    pub ig_flips: u64,
    pub digest: u64,
}

/// Run one replica pair on one stream.  Err = (class, detail, call index).
pub fn run_pair(c: &AffineCase, st: &mut PairStats) -> Result<(), (String, String, u64)> {
    let base = build_caught(&c.base).map_err(|e| ("harness".to_string(), e, 0))?;
    let target = build_caught(&c.target).map_err(|e| ("harness".to_string(), e, 0))?;
    let s = c.target.scalar;
    let auxobj: Option<Box<dyn Obj>> = match aux_kind(c.target.family) {
        Aux::Z => Some(build_caught(&DistSpec::f(Family::Normal, s, &[0.0, 1.0])).map_err(|e| ("harness".to_string(), e, 0))?),
        Aux::U => Some(build_caught(&DistSpec::f(Family::Triangular, s, &[0.0, 1.0, 1.0])).map_err(|e| ("harness".to_string(), e, 0))?),
        Aux::None => None,
    };
    let mut rb = SimRng::with_faults(c.seed, c.faults.clone());
    let mut rt = rb.clone();
    let mut d = Digest::new();
    for k in 0..c.calls {
        mark_call(k);
        for rr in [&mut rb, &mut rt] {
            rr.budget = rr.pos + 100_000;
        }
        // the auxiliary variate (z / f) is drawn from a clone of the pre-call state
        let mut ra = rb.clone();
        let ob = guarded(|| base.sample(&mut rb));
        let ot = guarded(|| target.sample(&mut rt));
        st.calls += 2;
        let (xb, xt) = match (ob, ot) {
            (Caught::Ok(a), Caught::Ok(b)) => (a.as_f64().unwrap(), b.as_f64().unwrap()),
            // panics / budgets are C03's and C05's business; stop this stream
            _ => break,
        };
        d.add(xt.to_bits());
        if rb.pos != rt.pos {
            return Err((
                "replica-mismatch(words)".into(),
                format!("{} consumed {} words where {} consumed {} (call {k})", c.target.label(), rt.pos, c.base.label(), rb.pos),
                k,
            ));
        }
        let aux = match (&auxobj, aux_kind(c.target.family)) {
            (Some(o), Aux::Z) => {
                let z = guarded(|| o.sample(&mut ra));
                match z {
                    Caught::Ok(z) => z.as_f64().unwrap(),
                    _ => break,
                }
            }
            (Some(o), Aux::U) => {
                // Triangular(0,1,1): x = sqrt(f) on the left branch always; f = x^2 is only
                // used inside a tolerance term
                match guarded(|| o.sample(&mut ra)) {
                    Caught::Ok(x) => {
                        let x = x.as_f64().unwrap();
                        x * x
                    }
                    _ => break,
                }
            }
            _ => 0.0,
        };
        match expected(&c.base, &c.target, xb, aux) {
            None => st.unjudged += 1,
            Some((want, tol)) => {
                st.judged += 1;
                let ok = xt == want || (xt - want).abs() <= tol || (xt.is_nan() && want.is_nan());
                if !ok {
                    // InverseGaussian: the root choice u <= mu/(mu+x) is a discontinuous
                    // branch; accept the other root, count the flip
                    if c.target.family == Family::InverseGaussian {
                        let mu = c.target.p[0];
                        let other = mu * mu / want;
                        if (xt - other).abs() <= 1e-3 * other.abs() {
                            st.ig_flips += 1;
                            continue;
                        }
                    }
                    return Err((
                        "replica-mismatch".into(),
                        format!(
                            "{} returned {:e} [{:#x}] where the map of {}'s output {:e} is {:e} [{:#x}] (tolerance {:e}, call {k})",
                            c.target.label(),
                            xt,
                            xt.to_bits(),
                            c.base.label(),
                            xb,
                            want,
                            want.to_bits(),
                            tol
                        ),
                        k,
                    ));
                }
            }
        }
    }
    st.words += rb.pos + rt.pos;
    st.fired += rb.fired as u64;
    st.digest = d.0;
    Ok(())
}

// ---------------------------------------------------------------------------
// generation of pairs
// ---------------------------------------------------------------------------

const FAMS: [Family; 13] = [
    Family::Normal,
    Family::Cauchy,
    Family::Gumbel,
    Family::Frechet,
    Family::SkewNormal,
    Family::Exp,
    Family::Gamma,
    Family::Weibull,
    Family::Pareto,
    Family::InverseGaussian,
    Family::LogNormal,
    Family::Triangular,
    Family::Pert,
];

fn pow2(r: &mut SimRng) -> f64 {
    2.0_f64.powi(below(r, 41) as i32 - 20)
}

/// One shape in three is a value at which implementations tend to branch (see
/// `envelope::special_cross`): a fast path taken at shape == 1/2, 1, 2 ... must still be
/// an exact affine image for every scale.
fn special_or(r: &mut SimRng, generic: f64) -> f64 {
    let d = 2.0_f64.powi(-12);
    const N: u64 = 10;
    match below(r, 3 * N) {
        0 => 0.5,
        1 => 1.0,
        2 => 2.0,
        3 => 3.0,
        4 => 0.25,
        5 => 4.0,
        6 => 1.0 + d,
        7 => 1.0 - d,
        8 => 2.0 + 2.0 * d,
        9 => 2.0 - 2.0 * d,
        _ => generic,
    }
}

/// (base, target) for a family; `r` drives the random choices.
fn gen_pair(fam: Family, s: Scalar, r: &mut SimRng) -> (DistSpec, DistSpec) {
    let f32_ = s == Scalar::F32;
    let (sm, bg) = if f32_ { (1e-6, 1e6) } else { (1e-30, 1e30) };
    let mode = below(r, 4); // 0: power-of-two scale, zero shift; 1: moderate general; 2: extreme general; 3: sign/edge
    let loc = |r: &mut SimRng| match mode {
        0 => 0.0,
        1 => lin(r, -10.0, 10.0),
        2 => (if below(r, 2) == 0 { 1.0 } else { -1.0 }) * logu(r, sm, bg),
        _ => {
            if below(r, 2) == 0 {
                0.0
            } else {
                -1.5
            }
        }
    };
    let scale = |r: &mut SimRng| match mode {
        0 => pow2(r),
        1 => logu(r, 1e-2, 1e2),
        2 => logu(r, sm, bg),
        _ => 1.0,
    };
    let mk = |p: &[f64]| DistSpec::f(fam, s, p);
    match fam {
        Family::Normal => {
            let mut sc = scale(r);
            if below(r, 3) == 0 {
                sc = -sc; // negative std_dev is documented as allowed
            }
            if mode == 3 && below(r, 2) == 0 {
                // degenerate scale: the constructor accepts std_dev == +-0; the value is
                // then `mean` and the word consumption must still be that of the base
                sc = if below(r, 2) == 0 { 0.0 } else { -0.0 };
            }
            (mk(&[0.0, 1.0]), mk(&[loc(r), sc]))
        }
        Family::Cauchy | Family::Gumbel => (mk(&[0.0, 1.0]), mk(&[loc(r), scale(r)])),
        Family::Frechet => {
            let shape = if f32_ { logu(r, 0.25, 1e2) } else { logu(r, 0.06, 1e3) };
            let shape = special_or(r, shape);
            (mk(&[0.0, 1.0, shape]), mk(&[loc(r), scale(r), shape]))
        }
        Family::SkewNormal => {
            let shape = match below(r, 5) {
                0 => 0.0,
                1 => 1.0,
                2 => -1.0,
                _ => {
                    let g = lin(r, -8.0, 8.0);
                    special_or(r, g)
                }
            };
            (mk(&[0.0, 1.0, shape]), mk(&[loc(r), scale(r), shape]))
        }
        Family::Exp => (mk(&[1.0]), mk(&[scale(r)])),
        Family::Gamma => {
            let shape = match below(r, 5) {
                0 => 1.0,
                1 => logu(r, 0.05, 0.999),
                _ => logu(r, 1.001, 1e3),
            };
            let shape = special_or(r, shape);
            (mk(&[shape, 1.0]), mk(&[shape, scale(r)]))
        }
        Family::Weibull => {
            let shape = if f32_ { logu(r, 0.05, 1e2) } else { logu(r, 0.006, 1e3) };
            let shape = special_or(r, shape);
            (mk(&[1.0, shape]), mk(&[scale(r), shape]))
        }
        Family::Pareto => {
            let shape = if f32_ { logu(r, 0.25, 1e3) } else { logu(r, 0.06, 1e4) };
            let shape = special_or(r, shape);
            (mk(&[1.0, shape]), mk(&[scale(r), shape]))
        }
        Family::InverseGaussian => {
            // conditioning is only good for mean/shape <= 1 (K7 region excluded)
            let mean = logu(r, 1e-2, 1e2);
            let shape = mean * logu(r, 1.0, 1e3);
            let c = if mode == 0 || below(r, 2) == 0 { pow2(r) } else { logu(r, 1e-3, 1e3) };
            let base = mk(&[mean, shape]);
            // exact products only for power-of-two c; for general c the parameters are
            // rounded, which is part of the stated tolerance
            let target = mk(&[base.p[0] * c, base.p[1] * c]);
            (base, target)
        }
        Family::LogNormal => {
            let (mu, sg) = if f32_ { (lin(r, -5.0, 5.0), logu(r, 1e-3, 3.0)) } else { (lin(r, -20.0, 20.0), logu(r, 1e-3, 5.0)) };
            let sg = if mode == 3 && below(r, 2) == 0 { 0.0 } else { sg };
            (mk(&[0.0, 1.0]), mk(&[mu, if below(r, 4) == 0 { -sg } else { sg }]))
        }
        Family::Triangular => {
            let m = match below(r, 5) {
                0 => 0.0,
                1 => 1.0,
                _ => below(r, 17) as f64 / 16.0,
            };
            let c = if mode == 0 { pow2(r) } else { logu(r, 1e-2, 1e3) };
            let a = loc(r);
            let base = mk(&[0.0, 1.0, m]);
            // mode mapped accordingly, computed in the scalar type
            let tmin = r32(s, a);
            let tmax = add(s, tmin, r32(s, c));
            let tmode = add(s, tmin, mul(s, sub(s, tmax, tmin), m));
            (base, mk(&[tmin, tmax, tmode.clamp(tmin, tmax)]))
        }
        Family::Pert => {
            // dyadic base and dyadic / power-of-two maps keep the Beta parameters identical
            let m = below(r, 17) as f64 / 16.0;
            let shape = [0.0, 1.0, 2.0, 4.0, 8.0, 0.5][below(r, 6) as usize];
            let c = pow2(r).clamp(2.0_f64.powi(-8), 2.0_f64.powi(8));
            let a = (below(r, 65) as f64 - 32.0) * c / 4.0 * if mode == 0 { 0.0 } else { 1.0 };
            (mk(&[0.0, 1.0, m, shape]), mk(&[a, a + c, a + c * m, shape]))
        }
        _ => unreachable!(),
    }
}
fn r32(s: Scalar, x: f64) -> f64 {
    rnd(s, x)
}

/// z lattice for from_zscore
fn z_lattice(s: Scalar, r: &mut SimRng) -> Vec<f64> {
    let mut v = vec![0.0, -0.0, 1.0, -1.0, f64::INFINITY, f64::NEG_INFINITY, f64::NAN, 0.5, 3.0, -8.5, 40.0, -40.0, 1e-300, -1e-300];
    if s == Scalar::F32 {
        v.extend([f32::MIN_POSITIVE as f64, f32::from_bits(1) as f64, f32::MAX as f64, -(f32::MAX as f64)]);
    } else {
        v.extend([f64::MIN_POSITIVE, f64::from_bits(1), f64::MAX, -f64::MAX]);
    }
    for _ in 0..64 {
        v.push((u01(r) - 0.5) * 20.0);
    }
    v.into_iter().map(|x| rnd(s, x)).collect()
}

fn zscore_check(c: &AffineCase) -> Result<(), (String, String, u64)> {
    let s = c.target.scalar;
    let z = f64::from_bits(c.z_bits);
    let p = &c.target.p;
    let same = |a: f64, b: f64| a.to_bits() == b.to_bits() || (a.is_nan() && b.is_nan());
    let (got, want, what) = match (c.target.family, s) {
        (Family::Normal, Scalar::F32) => {
            let n = Normal::<f32>::new(p[0] as f32, p[1] as f32).map_err(|e| ("harness".to_string(), format!("{e:?}"), 0))?;
            (n.from_zscore(z as f32) as f64, add(s, p[0], mul(s, p[1], z)), "mean + std_dev*z")
        }
        (Family::Normal, _) => {
            let n = Normal::<f64>::new(p[0], p[1]).map_err(|e| ("harness".to_string(), format!("{e:?}"), 0))?;
            (n.from_zscore(z), add(s, p[0], mul(s, p[1], z)), "mean + std_dev*z")
        }
        (Family::LogNormal, Scalar::F32) => {
            let n = LogNormal::<f32>::new(p[0] as f32, p[1] as f32).map_err(|e| ("harness".to_string(), format!("{e:?}"), 0))?;
            (n.from_zscore(z as f32) as f64, exp_nt(s, add(s, p[0], mul(s, p[1], z))), "exp(mu + sigma*z)")
        }
        (Family::LogNormal, _) => {
            let n = LogNormal::<f64>::new(p[0], p[1]).map_err(|e| ("harness".to_string(), format!("{e:?}"), 0))?;
            (n.from_zscore(z), exp_nt(s, add(s, p[0], mul(s, p[1], z))), "exp(mu + sigma*z)")
        }
        _ => return Err(("harness".into(), "zscore on wrong family".into(), 0)),
    };
    if !same(got, want) {
        return Err((
            "replica-mismatch(zscore)".into(),
            format!("{}.from_zscore({z:e}) = {got:e} [{:#x}] but {what} = {want:e} [{:#x}]", c.target.label(), got.to_bits(), want.to_bits()),
            0,
        ));
    }
    Ok(())
}

pub struct AffineEngine;

fn plan(ctx: &Ctx) -> (usize, usize, u64) {
    // (pairs per (family, scalar) case, seeds per pair, calls per stream)
    match ctx.tier {
        Tier::Quick => (160, 3, 1500),
        Tier::Thorough => (400, 8, 4000),
    }
}

fn run_any(c: &AffineCase, st: &mut PairStats) -> Result<(), (String, String, u64)> {
    if c.kind == "zscore" {
        zscore_check(c)
    } else {
        run_pair(c, st)
    }
}

fn shrink(c: &AffineCase, class: &str, call: u64) -> AffineCase {
    let fails = |x: &AffineCase| {
        let mut st = PairStats { calls: 0, words: 0, judged: 0, unjudged: 0, fired: 0, ig_flips: 0, digest: 0 };
        matches!(run_any(x, &mut st), Err((cl, _, _)) if cl == class)
    };
    let mut best = c.clone();
    best.calls = call + 1;
    if !fails(&best) {
        return c.clone();
    }
    let mut j = best.faults.len();
    while j > 0 {
        j -= 1;
        let mut x = best.clone();
        x.faults.remove(j);
        if fails(&x) {
            best = x;
        }
    }
    for seed in 0..16u64 {
        let mut x = best.clone();
        x.seed = seed;
        x.calls = c.calls;
        let mut st = PairStats { calls: 0, words: 0, judged: 0, unjudged: 0, fired: 0, ig_flips: 0, digest: 0 };
        if let Err((cl, _, k)) = run_any(&x, &mut st) {
            if cl == class {
                x.calls = k + 1;
                best = x;
                break;
            }
        }
    }
    best
}

impl Engine for AffineEngine {
    fn property(&self) -> &'static str {
        "C07"
    }
    fn level(&self) -> &'static str {
        "exploration"
    }
    fn rule(&self) -> String {
        "paired replicas on cloned streams: for each of the 13 listed families x {f32,f64}, seeded (base, target) parameter pairs that differ only by location/scale (power-of-two scalings with zero shift, moderate and extreme general pairs in E, sign flips for Normal/LogNormal), each on random streams and on streams with one boundary-lattice word injected at position 0..7; plus from_zscore on a lattice of z (+-0, +-inf, NaN, subnormals, MAX) and random z. evaluations = sample() calls; a pair is non-trivial iff at least one call was judged (finite, not subnormal); distinct_nontrivial = distinct (family, scalar, base params, target params, fault) tuples among those.".into()
    }
    fn assumptions(&self) -> Vec<String> {
        vec![
            "bit-exact expectation where the map is one multiply-add in the scalar type; Gamma(shape>1): 3 ulp (v*(d*scale) vs (v*d)*scale); Triangular: 4 ulp + eps*range*(4+1/sqrt(1-f)); InverseGaussian: 2 ulp for power-of-two scalings, 64 ulp otherwise and a root flip is accepted iff the other root matches".into(),
            "LogNormal expectation uses num-traits' Float::exp (libm), the function the crate calls".into(),
            "outputs in the subnormal / near-overflow range are not judged".into(),
        ]
    }
    fn num_cases(&self, _ctx: &Ctx) -> usize {
        FAMS.len() * 2 + 2
    }
    fn run_case(&self, ctx: &Ctx, index: usize) -> CaseResult {
        let (pairs, seeds, calls) = plan(ctx);
        let mut res = CaseResult::new(index);
        let mut keys: BTreeSet<u64> = BTreeSet::new();
        let mut d = Digest::new();
        let mut seen: BTreeSet<String> = BTreeSet::new();
        let mut r = SimRng::new(mix(&[ctx.seed, 0xC07, index as u64]));
        let lattice = boundary_lattice();
        let mut cases: Vec<AffineCase> = Vec::new();
        if index >= FAMS.len() * 2 {
            // from_zscore
            let s = if index % 2 == 0 { Scalar::F32 } else { Scalar::F64 };
            for fam in [Family::Normal, Family::LogNormal] {
                for _ in 0..pairs * 4 {
                    let (_, target) = gen_pair(fam, s, &mut r);
                    for z in z_lattice(s, &mut r) {
                        cases.push(AffineCase { kind: "zscore".into(), base: target.clone(), target: target.clone(), seed: 0, faults: vec![], calls: 1, z_bits: z.to_bits() });
                    }
                }
            }
        } else {
            let fam = FAMS[index / 2];
            let s = if index % 2 == 0 { Scalar::F32 } else { Scalar::F64 };
            for _ in 0..pairs {
                let (base, target) = gen_pair(fam, s, &mut r);
                for k in 0..seeds {
                    let seed = r.word();
                    // random stream
                    cases.push(AffineCase { kind: "affine-pair".into(), base: base.clone(), target: target.clone(), seed, faults: vec![], calls, z_bits: 0 });
                    // single-word-adversarial streams: a few lattice words at positions 0..7
                    for _ in 0..(if k == 0 { 24 } else { 4 }) {
                        let (_, inj) = lattice[below(&mut r, lattice.len() as u64) as usize];
                        cases.push(AffineCase {
                            kind: "affine-pair".into(),
                            base: base.clone(),
                            target: target.clone(),
                            seed,
                            faults: vec![Fault { pos: below(&mut r, 8), inject: inj }],
                            calls: 8,
                            z_bits: 0,
                        });
                    }
                }
            }
        }
        for c in &cases {
            let mut st = PairStats { calls: 0, words: 0, judged: 0, unjudged: 0, fired: 0, ig_flips: 0, digest: 0 };
            let out = run_any(c, &mut st);
            res.evaluations += st.calls.max(1);
            res.sim_words += st.words;
            res.stat_sum("calls_judged", st.judged as f64);
            res.stat_sum("calls_not_judged_subnormal_or_overflow", st.unjudged as f64);
            res.stat_sum("inverse_gaussian_root_flips_accepted", st.ig_flips as f64);
            res.stat_sum("pairs_x_streams", 1.0);
            if !c.faults.is_empty() {
                res.inj("single-word", 1);
                res.fired("single-word", st.fired.min(1));
            }
            d.add(st.digest);
            if st.judged > 0 || c.kind == "zscore" {
                keys.insert(hash_key(&[&c.base.label(), &c.target.label(), &format!("{:?}", c.faults), &c.z_bits.to_string()]));
            }
            if let Err((class, detail, call)) = out {
                d.add_str(&class);
                if class == "harness" {
                    res.notes.push(format!("harness: {detail}"));
                    continue;
                }
                let key = format!("{class}|{:?}|{:?}", c.target.family, c.target.scalar);
                if !seen.insert(key) {
                    continue;
                }
                let min = shrink(c, &class, call);
                let mut st2 = PairStats { calls: 0, words: 0, judged: 0, unjudged: 0, fired: 0, ig_flips: 0, digest: 0 };
                let detail2 = match run_any(&min, &mut st2) {
                    Err((_, d2, _)) => d2,
                    Ok(()) => detail,
                };
                let mut sig = BTreeMap::new();
                sig.insert("family".into(), format!("{:?}", c.target.family));
                sig.insert("scalar".into(), if c.target.scalar == Scalar::F32 { "f32".into() } else { "f64".into() });
                sig.insert("class".into(), class.clone());
                res.violations.push(Violation { class, detail: detail2, sig, case: serde_json::to_value(&min).unwrap() });
            }
        }
        // IG flips must stay rare
        if let (Some(f), Some(j)) = (res.stats.get("sum:inverse_gaussian_root_flips_accepted"), res.stats.get("sum:calls_judged")) {
            if *f > 1e-4 * *j + 3.0 {
                let mut sig = BTreeMap::new();
                sig.insert("family".into(), "InverseGaussian".into());
                sig.insert("class".into(), "replica-mismatch(flips)".into());
                res.violations.push(Violation {
                    class: "replica-mismatch(flips)".into(),
                    detail: format!("InverseGaussian root choice flipped in {f} of {j} judged calls (> 1e-4)"),
                    sig,
                    case: json!({"kind": "flip-rate", "rerun_case_index": index}),
                });
            }
        }
        if let Some(c) = cases.first() {
            res.samples.push(serde_json::to_value(c).unwrap());
        }
        res.keys = keys.into_iter().collect();
        res.digest = d.0;
        res
    }
    fn replay(&self, _ctx: &Ctx, case: &Value) -> Result<Vec<Violation>, String> {
        let c: AffineCase = serde_json::from_value(case.clone()).map_err(|e| format!("bad replay case: {e}"))?;
        let mut st = PairStats { calls: 0, words: 0, judged: 0, unjudged: 0, fired: 0, ig_flips: 0, digest: 0 };
        println!("replay: {} base {} target {} seed {} faults {:?} calls {}", c.kind, c.base.label(), c.target.label(), c.seed, c.faults, c.calls);
        match run_any(&c, &mut st) {
            Ok(()) => {
                println!("replay: outcome ok ({} judged calls)", st.judged);
                Ok(vec![])
            }
            Err((class, detail, _)) => {
                println!("replay: outcome class={class}: {detail}");
                let mut sig = BTreeMap::new();
                sig.insert("family".into(), format!("{:?}", c.target.family));
                sig.insert("scalar".into(), if c.target.scalar == Scalar::F32 { "f32".into() } else { "f64".into() });
                sig.insert("class".into(), class.clone());
                Ok(vec![Violation { class, detail, sig, case: case.clone() }])
            }
        }
    }
}

#[allow(dead_code)]
fn _unused(_: Out, _: Inject) {}
