//! C14 / C15 — schedule exploration over several distribution objects and streams.
//!
//! A history declares 2–6 objects (built from a spec, clones of another object, or
//! twins built again from equal parameters), 1–3 streams (some shared, some carrying
//! single-word faults) and 10–200 operations which the seeded scheduler interleaves:
//! sample / rng.sample(&d) / sample_iter(n) on any (object, stream) pair, clone-replace,
//! and — for C15 — *restart*: serialize, drop, deserialize (fault kind F7).
//!
//! C14 oracle: every call is re-executed with a fresh object built from the same
//! parameters on a clone of the recorded pre-state of the stream: output bits and
//! post-state must be identical; the object must still equal its snapshot and print the
//! same Debug; clones / twins must produce the same output; sample_iter == repeated
//! sample.  C15 oracle: a twin that was never restarted.

use crate::envelope as env;
use crate::registry::{build_caught, DistSpec, Family, Obj, Out, Scalar};
use crate::runner::{guarded, hash_key, mark_call, CaseResult, Caught, Ctx, Digest, Engine, Tier, Violation};
use crate::serde_fmt::{self, Fmt};
use crate::simrng::{boundary_lattice, mix, Fault, SimRng};
use serde::{Deserialize, Serialize};
use serde_json::{json, Value};
use std::collections::{BTreeMap, BTreeSet};
use std::sync::Mutex;

#[derive(Clone, Debug, Serialize, Deserialize, PartialEq)]
#[serde(rename_all = "snake_case")]
pub enum How {
    Build,
    /// `.clone()` of object k
    CloneOf(usize),
    /// built again from the same parameters as object k
    TwinOf(usize),
}

#[derive(Clone, Debug, Serialize, Deserialize)]
pub struct ObjDecl {
    pub spec: DistSpec,
    pub how: How,
}
#[derive(Clone, Debug, Serialize, Deserialize)]
pub struct StreamDecl {
    pub seed: u64,
    #[serde(default)]
    pub faults: Vec<Fault>,
}
#[derive(Clone, Debug, Serialize, Deserialize, PartialEq)]
#[serde(tag = "op", rename_all = "snake_case")]
pub enum HOp {
    Sample { o: usize, s: usize },
    RngSample { o: usize, s: usize },
    Iter { o: usize, s: usize, n: usize },
    CloneReplace { o: usize },
    /// `objects[o].clone_from(&objects[from])` (same concrete type only)
    CloneFrom { o: usize, from: usize },
    Restart { o: usize, fmt: Fmt },
}
#[derive(Clone, Debug, Serialize, Deserialize)]
pub struct HistCase {
    /// compare every object's outputs with a run of that object ALONE in a fresh child
    /// process (no other object ever sampled there): the fresh-process isolation oracle
    #[serde(default)]
    pub isolate: bool,
    pub kind: String,
    pub objects: Vec<ObjDecl>,
    pub streams: Vec<StreamDecl>,
    pub ops: Vec<HOp>,
}

#[derive(Clone, Copy, PartialEq)]
pub enum Mode {
    Purity,
    Serde,
}

#[derive(Default)]
pub struct HStats {
    pub ops: u64,
    pub calls: u64,
    pub words: u64,
    pub reexecutions: u64,
    pub twin_checks: u64,
    pub restarts: BTreeMap<String, u64>,
    pub faults_fired: u64,
    pub faults_total: u64,
    pub panics_skipped: u64,
    pub json_skipped_nonfinite: u64,
    pub isolation_runs: u64,
    pub digest: u64,
    pub variants: BTreeSet<String>,
}
pub struct HFail {
    pub op_index: usize,
    pub class: String,
    pub detail: String,
    pub family: String,
}

const CALL_BUDGET: u64 = 100_000;

fn same_seq(a: &[Out], b: &[Out]) -> bool {
    a.len() == b.len() && a.iter().zip(b).all(|(x, y)| x.same_bits(y))
}

/// variant label of the internal representation, from Debug output (used only to
/// *measure* that every enum variant named in C15 was reached)
fn variant_label(spec: &DistSpec, dbg: &str) -> String {
    let mut tags = Vec::new();
    for v in [
        "Large", "One(", "Small", "BB(", "BC(", "Binv", "Btpe", "Poisson(", "Constant", "Knuth", "Rejection", "InverseTransform",
        "RejectionAcceptance", "DoFExactlyOne", "DoFAnythingElse", "FromGamma", "FromBeta",
    ] {
        if dbg.contains(v) {
            tags.push(v.trim_end_matches('('));
        }
    }
    format!("{:?}:{}", spec.family, tags.join("+"))
}

pub fn exec(case: &HistCase, mode: Mode, st: &mut HStats) -> Result<(), HFail> {
    let mut objs: Vec<Box<dyn Obj>> = Vec::new();
    let mut specs: Vec<DistSpec> = Vec::new();
    let hf = |k: usize, class: &str, detail: String, fam: &DistSpec| HFail {
        op_index: k,
        class: class.to_string(),
        detail,
        family: format!("{:?}", fam.family),
    };
    for (i, od) in case.objects.iter().enumerate() {
        let o = match &od.how {
            How::Build => build_caught(&od.spec).map_err(|e| hf(0, "harness", e, &od.spec))?,
            How::CloneOf(k) if *k < i => objs[*k].clone_obj(),
            How::TwinOf(k) if *k < i => build_caught(&specs[*k]).map_err(|e| hf(0, "harness", e, &od.spec))?,
            _ => return Err(hf(0, "harness", "bad object reference".into(), &od.spec)),
        };
        let spec = match &od.how {
            How::Build => od.spec.clone(),
            How::CloneOf(k) | How::TwinOf(k) => specs[*k].clone(),
        };
        st.variants.insert(variant_label(&spec, &o.debug()));
        objs.push(o);
        specs.push(spec);
    }
    // never-restarted twins (C15 oracle)
    let mut twins: Vec<Box<dyn Obj>> = if mode == Mode::Serde {
        specs.iter().map(|s| build_caught(s)).collect::<Result<_, _>>().map_err(|e| hf(0, "harness", e, &specs[0]))?
    } else {
        Vec::new()
    };
    let mut streams: Vec<SimRng> = case.streams.iter().map(|s| SimRng::with_faults(s.seed, s.faults.clone())).collect();
    st.faults_total += case.streams.iter().map(|s| s.faults.len() as u64).sum::<u64>();
    let mut d = Digest::new();
    // recorded (spec, pre-state, n, outputs) of every call, for the order-independence check
    let mut recorded: Vec<(usize, DistSpec, SimRng, usize, Vec<Out>)> = Vec::new();
    let mut iso: BTreeMap<usize, Vec<(usize, [u64; 5], Vec<u64>)>> = BTreeMap::new();

    for (k, op) in case.ops.iter().enumerate() {
        st.ops += 1;
        mark_call(k as u64);
        match op {
            HOp::Sample { o, s } | HOp::RngSample { o, s } | HOp::Iter { o, s, .. } => {
                if *o >= objs.len() || *s >= streams.len() {
                    continue;
                }
                let spec = &specs[*o];
                let pre = streams[*s].clone();
                let snap = objs[*o].clone_obj();
                let snap_dbg = objs[*o].debug();
                let n = if let HOp::Iter { n, .. } = op { *n } else { 1 };
                streams[*s].budget = streams[*s].pos + CALL_BUDGET * n as u64;
                let rng_form = matches!(op, HOp::RngSample { .. });
                let iter_form = matches!(op, HOp::Iter { .. });
                let obj = &objs[*o];
                let stream = &mut streams[*s];
                let r = guarded(|| {
                    if iter_form {
                        obj.sample_iter(stream, n)
                    } else if rng_form {
                        vec![obj.rng_sample(stream)]
                    } else {
                        vec![obj.sample(stream)]
                    }
                });
                st.calls += n as u64;
                let out = match r {
                    Caught::Ok(v) => v,
                    _ => {
                        // a panic / exhausted budget is C03's / C05's business; purity has
                        // nothing to compare.  Restore the stream so the history stays
                        // well-defined.
                        st.panics_skipped += 1;
                        streams[*s] = pre;
                        streams[*s].budget = u64::MAX;
                        // skip the word that triggered it so that we do not loop on it
                        let _ = guarded(|| streams[*s].word());
                        continue;
                    }
                };
                st.words += streams[*s].pos - pre.pos;
                for x in &out {
                    d.add_all(&x.bits());
                }
                d.add(streams[*s].pos);
                let post_state = streams[*s].state();
                if mode == Mode::Purity && recorded.len() < 30_000 {
                    recorded.push((k, spec.clone(), pre.clone(), n, out.clone()));
                }
                if mode == Mode::Purity && case.isolate && pre.pending_faults() == 0 && n == 1 {
                    iso.entry(*o).or_default().push((k, pre.raw_state(), out[0].bits()));
                }

                // (1) re-execution with a fresh object on the recorded pre-state, as
                // plain repeated sample() calls
                let reexec = |who: &dyn Obj| -> Caught<(Vec<Out>, ([u64; 4], u64, usize))> {
                    let mut p2 = pre.clone();
                    p2.budget = p2.pos + CALL_BUDGET * n as u64;
                    guarded(|| {
                        let v: Vec<Out> = (0..n).map(|_| who.sample(&mut p2)).collect();
                        (v, p2.state())
                    })
                };
                if mode == Mode::Purity {
                    let fresh = build_caught(spec).map_err(|e| hf(k, "harness", e, spec))?;
                    st.reexecutions += 1;
                    match reexec(&*fresh) {
                        Caught::Ok((v, stt)) => {
                            if !same_seq(&v, &out) || stt != post_state {
                                let what = if iter_form { "sample_iter(n) vs a fresh object's repeated sample()" } else { "the call vs a fresh object on the same pre-state" };
                                return Err(hf(
                                    k,
                                    if iter_form { "impure(iter)" } else { "impure(reexec)" },
                                    format!(
                                        "{}: {what}: got {:?} (stream pos {}), fresh object got {:?} (pos {})",
                                        spec.label(),
                                        out.iter().map(|x| x.show()).collect::<Vec<_>>(),
                                        post_state.1,
                                        v.iter().map(|x| x.show()).collect::<Vec<_>>(),
                                        stt.1
                                    ),
                                    spec,
                                ));
                            }
                        }
                        _ => {
                            return Err(hf(k, "impure(reexec)", format!("{}: the call returned but its re-execution panicked", spec.label()), spec));
                        }
                    }
                    // (2) the object is unchanged
                    if objs[*o].eq_obj(&*snap) == Some(false) {
                        return Err(hf(k, "impure(mutated)", format!("{}: object != its snapshot after sampling", spec.label()), spec));
                    }
                    if objs[*o].debug() != snap_dbg {
                        return Err(hf(k, "impure(mutated)", format!("{}: Debug output changed by sampling", spec.label()), spec));
                    }
                    // (3) clones / twins of this object produce the same output
                    for (j, od) in case.objects.iter().enumerate() {
                        // related = currently holds a value of equal parameters (clone, twin,
                        // clone_from target); `specs` is kept up to date by CloneFrom
                        if j == *o || specs[j] != *spec {
                            continue;
                        }
                        st.twin_checks += 1;
                        match reexec(&*objs[j]) {
                            Caught::Ok((v, stt)) if same_seq(&v, &out) && stt == post_state => {}
                            _ => {
                                return Err(hf(
                                    k,
                                    "impure(twin)",
                                    format!("{}: object {j} ({:?}) does not reproduce object {o}'s output on the same stream state", spec.label(), od.how),
                                    spec,
                                ));
                            }
                        }
                    }
                } else {
                    // C15: the never-restarted twin on the same pre-state
                    st.twin_checks += 1;
                    match reexec(&*twins[*o]) {
                        Caught::Ok((v, stt)) if same_seq(&v, &out) && stt == post_state => {}
                        Caught::Ok((v, stt)) => {
                            return Err(hf(
                                k,
                                "roundtrip(sample)",
                                format!(
                                    "{}: restored object returned {:?} (pos {}), never-restarted twin {:?} (pos {})",
                                    spec.label(),
                                    out.iter().map(|x| x.show()).collect::<Vec<_>>(),
                                    post_state.1,
                                    v.iter().map(|x| x.show()).collect::<Vec<_>>(),
                                    stt.1
                                ),
                                spec,
                            ))
                        }
                        _ => return Err(hf(k, "roundtrip(sample)", format!("{}: twin panicked where the restored object returned", spec.label()), spec)),
                    }
                }
            }
            HOp::CloneReplace { o } => {
                if *o >= objs.len() {
                    continue;
                }
                let c = objs[*o].clone_obj();
                if c.eq_obj(&*objs[*o]) == Some(false) {
                    return Err(hf(k, "impure(clone)", format!("{}: clone != original", specs[*o].label()), &specs[*o]));
                }
                objs[*o] = c;
            }
            HOp::CloneFrom { o, from } => {
                if *o >= objs.len() || *from >= objs.len() || o == from {
                    continue;
                }
                let (a, b) = if o < from {
                    let (x, y) = objs.split_at_mut(*from);
                    (&mut x[*o], &y[0])
                } else {
                    let (x, y) = objs.split_at_mut(*o);
                    (&mut y[0], &x[*from])
                };
                if a.clone_from_obj(&**b) {
                    // object o is now a clone of `from`: it must behave like a fresh value
                    // built from `from`'s parameters
                    specs[*o] = specs[*from].clone();
                    if mode == Mode::Serde {
                        twins[*o] = build_caught(&specs[*o]).map_err(|e| hf(k, "harness", e, &specs[*o]))?;
                    }
                    if a.eq_obj(&**b) == Some(false) {
                        return Err(hf(k, "impure(clone)", format!("{}: clone_from result != source", specs[*o].label()), &specs[*o]));
                    }
                    if a.debug() != b.debug() {
                        return Err(hf(k, "impure(clone)", format!("{}: clone_from result prints differently from its source: {} vs {}", specs[*o].label(), a.debug(), b.debug()), &specs[*o]));
                    }
                }
            }
            HOp::Restart { o, fmt } => {
                if *o >= objs.len() || mode != Mode::Serde {
                    continue;
                }
                let spec = &specs[*o];
                let Some(ser) = objs[*o].ser(*fmt) else {
                    continue; // type has no serde impls
                };
                let bytes = ser.map_err(|e| hf(k, "roundtrip(serialize)", format!("{}: serialize to {fmt:?} failed: {e}", spec.label()), spec))?;
                if *fmt == Fmt::Json {
                    // JSON cannot carry +-inf / NaN (they become null): that is the format's
                    // limit, not the crate's, so JSON is not used for such values
                    let vb = objs[*o].ser(Fmt::Val).unwrap().map_err(|e| hf(k, "roundtrip(serialize)", e, spec))?;
                    if serde_fmt::has_nonfinite(&vb) {
                        st.json_skipped_nonfinite += 1;
                        continue;
                    }
                }
                let restored = objs[*o]
                    .de(*fmt, &bytes)
                    .unwrap()
                    .map_err(|e| hf(k, "roundtrip(deserialize)", format!("{}: deserialize from {fmt:?} failed: {e}", spec.label()), spec))?;
                // the old object is dropped here: only the durable form survived
                objs[*o] = restored;
                *st.restarts.entry(format!("{fmt:?}")).or_insert(0) += 1;
                if objs[*o].eq_obj(&*twins[*o]) == Some(false) {
                    return Err(hf(
                        k,
                        "roundtrip(eq)",
                        format!("{}: value restored from {fmt:?} != original: {} vs {}", spec.label(), objs[*o].debug(), twins[*o].debug()),
                        spec,
                    ));
                }
                if objs[*o].debug() != twins[*o].debug() {
                    return Err(hf(
                        k,
                        "roundtrip(eq)",
                        format!("{}: value restored from {fmt:?} prints differently: {} vs {}", spec.label(), objs[*o].debug(), twins[*o].debug()),
                        spec,
                    ));
                }
                let again = objs[*o].ser(*fmt).unwrap().map_err(|e| hf(k, "roundtrip(serialize)", e, spec))?;
                if again != bytes {
                    return Err(hf(k, "roundtrip(bytes)", format!("{}: serialize(deserialize(s)) != s in {fmt:?}", spec.label()), spec));
                }
                d.add(bytes.len() as u64);
            }
        }
    }
    // (6) order independence: the recorded calls are re-executed in REVERSE order by fresh
    // objects on their recorded pre-states.  State hidden outside the value (a static or
    // thread-local cache) makes a result depend on what ran before it.
    if mode == Mode::Purity {
        for (k, spec, pre, n, out) in recorded.iter().rev() {
            let fresh = build_caught(spec).map_err(|e| hf(*k, "harness", e, spec))?;
            let mut p2 = pre.clone();
            p2.budget = p2.pos + CALL_BUDGET * *n as u64;
            st.reexecutions += 1;
            let r = guarded(|| (0..*n).map(|_| fresh.sample(&mut p2)).collect::<Vec<Out>>());
            match r {
                Caught::Ok(v) if same_seq(&v, out) => {}
                Caught::Ok(v) => {
                    return Err(hf(
                        *k,
                        "impure(order)",
                        format!(
                            "{}: the same value on the same stream state returned {:?} when the calls of this history ran in reverse order, but {:?} in the original order",
                            spec.label(),
                            v.iter().map(|x| x.show()).collect::<Vec<_>>(),
                            out.iter().map(|x| x.show()).collect::<Vec<_>>()
                        ),
                        spec,
                    ))
                }
                _ => return Err(hf(*k, "impure(order)", format!("{}: re-execution in reverse order panicked", spec.label()), spec)),
            }
        }
    }
    // (7) fresh-process isolation: each object's calls are repeated ALONE in a new child
    // process on the recorded stream states.  Anything another object left behind in this
    // process (static / thread-local state) cannot exist there.
    if mode == Mode::Purity && case.isolate {
        for (o, calls) in &iso {
            let spec = &specs[*o];
            // the object's parameters may have changed through CloneFrom: only calls made
            // under the final parameters are shipped (others are skipped, conservatively)
            let req = json!({"spec": spec, "states": calls.iter().map(|c| c.1.to_vec()).collect::<Vec<_>>()});
            st.isolation_runs += 1;
            match isolate_in_child(&req) {
                Err(e) => return Err(hf(0, "harness", format!("isolation child: {e}"), spec)),
                Ok(outs) => {
                    for ((k, _, bits), got) in calls.iter().zip(outs.iter()) {
                        if bits != got {
                            return Err(hf(
                                *k,
                                "impure(isolation)",
                                format!(
                                    "{}: on the same stream state this value returned bits {:x?} inside the history but {:x?} when run alone in a fresh process (state left behind by another object?)",
                                    spec.label(),
                                    bits,
                                    got
                                ),
                                spec,
                            ));
                        }
                    }
                }
            }
        }
    }
    for s in &streams {
        st.faults_fired += s.fired as u64;
    }
    st.digest = d.0;
    Ok(())
}

/// Run `verif-sim isolate` as a child: stdin = {"spec":..,"states":[[s0,s1,s2,s3,pos],..]},
/// stdout = one line of JSON: [[bits..],..]
fn isolate_in_child(req: &Value) -> Result<Vec<Vec<u64>>, String> {
    use std::io::Write;
    use std::process::{Command, Stdio};
    let exe = std::env::current_exe().map_err(|e| e.to_string())?;
    let mut child = Command::new(exe).arg("isolate").stdin(Stdio::piped()).stdout(Stdio::piped()).stderr(Stdio::null()).spawn().map_err(|e| e.to_string())?;
    child.stdin.take().unwrap().write_all(serde_json::to_string(req).unwrap().as_bytes()).map_err(|e| e.to_string())?;
    let out = child.wait_with_output().map_err(|e| e.to_string())?;
    if !out.status.success() {
        return Err(format!("child exited with {}", out.status));
    }
    serde_json::from_slice(&out.stdout).map_err(|e| e.to_string())
}

/// child side of the isolation oracle
pub fn isolate_main() -> i32 {
    let mut input = String::new();
    if std::io::Read::read_to_string(&mut std::io::stdin(), &mut input).is_err() {
        return 2;
    }
    let Ok(req) = serde_json::from_str::<Value>(&input) else { return 2 };
    let Ok(spec) = serde_json::from_value::<DistSpec>(req["spec"].clone()) else { return 2 };
    let Ok(states) = serde_json::from_value::<Vec<[u64; 5]>>(req["states"].clone()) else { return 2 };
    let Ok(obj) = build_caught(&spec) else { return 2 };
    let mut outs: Vec<Vec<u64>> = Vec::with_capacity(states.len());
    for st in states {
        let mut rng = SimRng::from_raw(st);
        rng.budget = rng.pos + CALL_BUDGET;
        match guarded(|| obj.sample(&mut rng)) {
            Caught::Ok(o) => outs.push(o.bits()),
            _ => outs.push(vec![]),
        }
    }
    println!("{}", serde_json::to_string(&outs).unwrap());
    0
}

// ---------------------------------------------------------------------------
// generation
// ---------------------------------------------------------------------------

/// Every public distribution type, both scalar types, every internal variant (via the
/// grids of E).  Extremes that are known to hang or to need huge set-up are excluded
/// (C03/C05 own those).
pub fn pool(seed: u64) -> Vec<DistSpec> {
    static CACHE: std::sync::Mutex<Option<(u64, Vec<DistSpec>)>> = std::sync::Mutex::new(None);
    let mut g = CACHE.lock().unwrap_or_else(|e| e.into_inner());
    if let Some((s, v)) = g.as_ref() {
        if *s == seed {
            return v.clone();
        }
    }
    let v = pool_uncached(seed);
    *g = Some((seed, v.clone()));
    v
}

fn pool_uncached(seed: u64) -> Vec<DistSpec> {
    let mut v = Vec::new();
    let mut r = SimRng::new(mix(&[seed, 0xC14]));
    for s in [Scalar::F32, Scalar::F64] {
        for fam in env::CONT_FAMILIES {
            v.extend(env::cont_grid(fam, s));
            if !matches!(fam, Family::StandardNormal | Family::Exp1) {
                v.push(env::cont_random(fam, s, &mut r));
            }
        }
        v.push(DistSpec::f(Family::NormalMeanCv, s, &[2.0, 0.5]));
        for fam in env::DISC_FLOAT_FAMILIES {
            v.extend(env::disc_grid(fam, s));
            v.push(env::disc_random(fam, s, &mut r));
        }
        v.extend(env::dirichlet_grid(s));
    }
    for fam in env::DISC_INT_FAMILIES {
        v.extend(env::disc_grid(fam, Scalar::None));
        if fam != Family::StandardGeometric {
            v.push(env::disc_random(fam, Scalar::None, &mut r));
            v.push(env::disc_random(fam, Scalar::None, &mut r));
        }
    }
    v.extend(env::geom_specs());
    v.extend(env::weighted_specs());
    // documented infinities: Exp(0) stores lambda_inverse = +inf, Gamma with an infinite
    // parameter is Exp(0) (restart must carry the infinity; JSON cannot and is skipped)
    for s in [Scalar::F32, Scalar::F64] {
        v.push(DistSpec::f(Family::Exp, s, &[0.0]));
        v.push(DistSpec::f(Family::Gamma, s, &[2.0, f64::INFINITY]));
    }
    // special-value variants: every float parameter of the first grid point of each
    // family replaced in turn by floats that tolerance-based or "is default" shortcuts
    // get wrong (tiny non-zero, neighbours of 1, subnormal, negative tiny)
    {
        let mut extra = Vec::new();
        for s in [Scalar::F32, Scalar::F64] {
            let (eps, tiny, sub) = if s == Scalar::F32 {
                (f32::EPSILON as f64, 1e-20, f32::from_bits(1) as f64)
            } else {
                (f64::EPSILON, 1e-300, f64::from_bits(1))
            };
            let specials = [tiny, -tiny, sub, 1.0 - eps / 2.0, 1.0 - eps, 1.0 + eps, eps, -eps, 0.0, -0.0, 1.0];
            for fam in env::CONT_FAMILIES.iter().chain(env::DISC_FLOAT_FAMILIES.iter()) {
                let grid = if env::CONT_FAMILIES.contains(fam) { env::cont_grid(*fam, s) } else { env::disc_grid(*fam, s) };
                let Some(base) = grid.first() else { continue };
                for i in 0..base.p.len() {
                    for &x in &specials {
                        let mut c = base.clone();
                        c.p[i] = x;
                        if c != *base && build_caught(&c).is_ok() {
                            extra.push(c);
                        }
                    }
                }
            }
        }
        v.extend(extra);
    }
    // all parameters equal (degenerate members such as the point mass Triangular(x, x, x)):
    // a constant derived from differences or ratios of the parameters is 0/0 there
    for s in [Scalar::F32, Scalar::F64] {
        for fam in env::CONT_FAMILIES {
            let Some(base) = env::cont_grid(fam, s).into_iter().next() else { continue };
            if base.p.len() < 2 {
                continue;
            }
            for c in [1.0, 0.5, 2.0, 3.1, -2.3, 0.0] {
                let mut spec = base.clone();
                for x in spec.p.iter_mut() {
                    *x = c;
                }
                // (the documentation of LogNormal::from_mean_cv requires mean > 0; its constructor
                // lets a non-positive mean through when cv == 0: C04's domain, not a valid value)
                if fam == Family::LogNormalMeanCv && c <= 0.0 {
                    continue;
                }
                if build_caught(&spec).is_ok() {
                    v.push(spec);
                }
            }
        }
    }
    v.extend(field_cover_specs(seed));
    // keep constructors cheap: drop HIN set-ups that take long and vectors above 100 entries
    v.retain(|s| match s.family {
        Family::Hypergeometric => s.n[0] <= 1 << 40 && build_caught(s).is_ok(),
        _ => true,
    });
    v
}

/// Field-value coverage search: parameter sets built from "round" values are kept when
/// their serialised form reaches a (field path, special value) pair that no earlier
/// candidate of the family reached -- a stored constant that is exactly 0, 1, -1, infinite,
/// `None`, an empty sequence, or a new enum variant.  Shortcuts such as "skip the field
/// when it has its default value" only misbehave at such points, and they are isolated
/// (e.g. Binomial's BINV constant a == 1 iff p == 1/(n+2)).
pub fn field_cover_specs(seed: u64) -> Vec<DistSpec> {
    use crate::serde_fmt::{decode_value, special_leaves};
    const FL: [f64; 24] = [
        0.0, 0.01, 0.02, 0.04, 0.05, 0.1, 0.125, 0.2, 0.25, 0.3, 0.5, 0.75, 0.8, 0.9, 1.0, 1.5, 2.0, 3.0, 4.0, 10.0, 100.0,
        -1.0, -0.5, 1e6,
    ];
    const IN: [u64; 14] = [0, 1, 2, 3, 4, 5, 6, 8, 10, 18, 20, 48, 98, 1000];
    let mut r = SimRng::new(mix(&[seed, 0xF1E1D]));
    let mut out = Vec::new();
    let fams: Vec<(Family, Vec<Scalar>)> = env::CONT_FAMILIES
        .iter()
        .chain(env::DISC_FLOAT_FAMILIES.iter())
        .map(|f| (*f, vec![Scalar::F32, Scalar::F64]))
        .chain(env::DISC_INT_FAMILIES.iter().map(|f| (*f, vec![Scalar::None])))
        .collect();
    for (fam, scalars) in fams {
        if matches!(fam, Family::Zipf | Family::Zeta) {
            continue;
        }
        for s in scalars {
            let grid = if env::CONT_FAMILIES.contains(&fam) { env::cont_grid(fam, s) } else { env::disc_grid(fam, s) };
            let Some(base) = grid.first() else { continue };
            let (np, nn) = (base.p.len(), base.n.len());
            if np + nn == 0 {
                continue;
            }
            let total = (FL.len() as u64).saturating_pow(np as u32).saturating_mul((IN.len() as u64).saturating_pow(nn as u32));
            let tries = total.min(3000);
            // up to three representatives per (path, value) pair
            let mut covered: BTreeMap<String, u32> = BTreeMap::new();
            // the grid points of E come first: only what they do not reach is added
            let mut cands: Vec<(DistSpec, bool)> = grid.iter().map(|g| (g.clone(), false)).collect();
            for t in 0..tries {
                let mut c = base.clone();
                let mut k = if total <= 3000 { t } else { r.word() % total };
                for i in 0..np {
                    c.p[i] = FL[(k % FL.len() as u64) as usize];
                    k /= FL.len() as u64;
                }
                for i in 0..nn {
                    c.n[i] = IN[(k % IN.len() as u64) as usize];
                    k /= IN.len() as u64;
                }
                cands.push((c, true));
            }
            for (c, is_new) in cands {
                let Ok(obj) = build_caught(&c) else { continue };
                // a constructor that lets a documented-invalid argument through and stores
                // NaN (LogNormal::from_mean_cv(-1, 0): C04's domain) yields no valid value
                if is_new && obj.eq_obj(obj.as_ref()) == Some(false) {
                    continue;
                }
                let Some(Ok(bytes)) = obj.ser(Fmt::Val) else { continue };
                let Ok(val) = decode_value(&bytes) else { continue };
                let mut fresh = false;
                for leaf in special_leaves(&val) {
                    let n = covered.entry(leaf).or_insert(0);
                    *n += 1;
                    fresh |= *n <= 3;
                }
                if fresh && is_new {
                    out.push(c);
                }
            }
        }
    }
    out
}

/// A value of the same family that agrees with `spec` in one parameter or in a derived
/// constant (mode, mean): hidden state keyed on part of the parameters needs such pairs
/// to collide.
pub fn related(spec: &DistSpec, r: &mut SimRng) -> Option<DistSpec> {
    let b = |r: &mut SimRng, n: u64| env::below(r, n);
    let mut s2 = spec.clone();
    match spec.family {
        Family::Binomial => {
            let (n, p) = (spec.n[0], spec.p[0]);
            if !(p > 0.0 && p < 1.0) || n >= 1 << 40 {
                return None;
            }
            match b(r, 4) {
                0 | 3 => {
                    // same mode floor((n+1)p), different n
                    let m = ((n as f64 + 1.0) * p).floor();
                    let n2 = n.checked_mul([2u64, 4, 10, 1000, 5_000_000][b(r, 5) as usize])?;
                    let p2 = (m + 0.5) / (n2 as f64 + 1.0);
                    s2.n = vec![n2];
                    s2.p = vec![p2];
                }
                1 => s2.p = vec![(p * [0.5, 0.9, 1.1][b(r, 3) as usize]).min(0.999)],
                _ => s2.n = vec![n.checked_mul(2)?],
            }
        }
        Family::Hypergeometric => {
            let k = b(r, 3) as usize;
            s2.n[k] = match k {
                0 => spec.n[0].checked_mul(2)?,
                _ => spec.n[k] / 2,
            };
        }
        Family::Alias | Family::Tree => {
            // same length, different total
            if !s2.n.is_empty() && s2.wty.map(|w| !w.is_float()).unwrap_or(false) {
                let i = b(r, s2.n.len() as u64) as usize;
                s2.n[i] = if s2.n[i] > 1 { s2.n[i] - 1 } else { s2.n[i] + 1 };
                if s2.n.iter().all(|x| *x == 0) {
                    return None;
                }
            } else if !s2.p.is_empty() && s2.wty.map(|w| w.is_float()).unwrap_or(false) {
                let i = b(r, s2.p.len() as u64) as usize;
                s2.p[i] = s2.p[i] * 0.5 + 0.25;
            } else {
                return None;
            }
        }
        _ => {
            if spec.p.is_empty() {
                return None;
            }
            let i = b(r, spec.p.len() as u64) as usize;
            let f = [0.5, 2.0, 1.0 + 1e-3][b(r, 3) as usize];
            s2.p[i] = spec.p[i] * f;
            if spec.scalar == Scalar::F32 {
                s2.p[i] = s2.p[i] as f32 as f64;
            }
        }
    }
    if s2 == *spec || build_caught(&s2).is_err() {
        return None;
    }
    Some(s2)
}

pub fn gen_case(pool: &[DistSpec], r: &mut SimRng, mode: Mode) -> HistCase {
    let b = |r: &mut SimRng, n: u64| env::below(r, n);
    // 1 in 48 histories is a long interleaving of two values of ONE family on one shared
    // stream (collisions in family-specific hidden state need related values and many calls)
    let long = mode == Mode::Purity && b(r, 48) == 0;
    let n_base = if long { 2 } else { 1 + b(r, 3) as usize };
    let same_family = long || b(r, 2) == 0;
    let mut first_family: Option<Family> = None;
    let mut objects: Vec<ObjDecl> = Vec::new();
    for _ in 0..n_base {
        let spec = loop {
            let s = &pool[b(r, pool.len() as u64) as usize];
            if let (true, Some(f)) = (same_family, first_family) {
                if s.family != f && b(r, 400) != 0 {
                    continue;
                }
            }
            if mode == Mode::Serde {
                // only types that implement the serde traits (registry decides)
                if matches!(s.family, Family::Zipf | Family::Zeta | Family::Dirichlet) {
                    continue;
                }
            }
            break s.clone();
        };
        // the partner of a long interleaving is a *related* value of the first object
        let spec = if long && !objects.is_empty() { related(&objects[0].spec, r).unwrap_or(spec) } else { spec };
        first_family.get_or_insert(spec.family);
        let k = objects.len();
        objects.push(ObjDecl { spec: spec.clone(), how: How::Build });
        if mode == Mode::Purity {
            match b(r, 4) {
                0 => objects.push(ObjDecl { spec: spec.clone(), how: How::CloneOf(k) }),
                1 => objects.push(ObjDecl { spec: spec.clone(), how: How::TwinOf(k) }),
                2 => {
                    objects.push(ObjDecl { spec: spec.clone(), how: How::CloneOf(k) });
                    objects.push(ObjDecl { spec: spec.clone(), how: How::TwinOf(k) });
                }
                _ => {}
            }
        }
    }
    let n_streams = if long { 1 } else { 1 + b(r, 3) as usize };
    let lattice = boundary_lattice();
    let streams: Vec<StreamDecl> = (0..n_streams)
        .map(|_| {
            let nf = match b(r, 4) {
                0 => 0,
                1 | 2 => 1,
                _ => 2 + b(r, 3),
            };
            let faults = (0..nf)
                .map(|_| Fault { pos: b(r, 120), inject: lattice[b(r, lattice.len() as u64) as usize].1 })
                .collect();
            StreamDecl { seed: r.word(), faults }
        })
        .collect();
    let span = if b(r, 4) == 0 { 190 } else { 40 };
    // one long interleaving in four is ten times longer: a collision in hidden state that
    // matters once per ~1e4 calls needs that many calls of the colliding pair
    let n_ops = if long { if b(r, 4) == 0 { 40_000 } else { 4000 } } else { 10 + b(r, span) as usize };
    let mut ops = Vec::with_capacity(n_ops);
    for _ in 0..n_ops {
        let o = b(r, objects.len() as u64) as usize;
        let s = b(r, streams.len() as u64) as usize;
        let x = b(r, 100);
        let op = if mode == Mode::Serde && x < 25 {
            HOp::Restart { o, fmt: if b(r, 2) == 0 { Fmt::Val } else { Fmt::Json } }
        } else if x < 70 || long {
            HOp::Sample { o, s }
        } else if x < 82 {
            HOp::RngSample { o, s }
        } else if x < 94 {
            HOp::Iter { o, s, n: 1 + b(r, 6) as usize }
        } else if x < 97 {
            HOp::CloneReplace { o }
        } else {
            HOp::CloneFrom { o, from: b(r, objects.len() as u64) as usize }
        };
        ops.push(op);
    }
    let mut streams = streams;
    if long {
        for s in streams.iter_mut() {
            s.faults.clear();
        }
    }
    HistCase { isolate: long, kind: if mode == Mode::Purity { "purity-history".into() } else { "serde-history".into() }, objects, streams, ops }
}

thread_local! {
    /// shrink predicate: false = execute in this process, true = execute every candidate
    /// in a fresh child process (needed when the failure depends on process-wide state)
    static FRESH_PREDICATE: std::cell::Cell<bool> = const { std::cell::Cell::new(false) };
}

fn fails_same(case: &HistCase, mode: Mode, class: &str) -> bool {
    if FRESH_PREDICATE.with(|f| f.get()) {
        return matches!(exec_in_child(case, mode), Ok(Some((c, _))) if c == class);
    }
    let mut st = HStats::default();
    matches!(exec(case, mode, &mut st), Err(f) if f.class == class)
}

/// Execute one history in a fresh child process (`verif-sim hist-exec`); returns the
/// failure (class, detail) if any.
pub fn exec_in_child(case: &HistCase, mode: Mode) -> Result<Option<(String, String)>, String> {
    use std::io::Write;
    use std::process::{Command, Stdio};
    let exe = std::env::current_exe().map_err(|e| e.to_string())?;
    let mut child = Command::new(exe).arg("hist-exec").stdin(Stdio::piped()).stdout(Stdio::piped()).stderr(Stdio::null()).spawn().map_err(|e| e.to_string())?;
    let req = json!({"mode": if mode == Mode::Purity { "purity" } else { "serde" }, "case": case});
    child.stdin.take().unwrap().write_all(serde_json::to_string(&req).unwrap().as_bytes()).map_err(|e| e.to_string())?;
    let out = child.wait_with_output().map_err(|e| e.to_string())?;
    if !out.status.success() {
        return Err(format!("child exited with {}", out.status));
    }
    let v: Value = serde_json::from_slice(&out.stdout).map_err(|e| e.to_string())?;
    Ok(v["class"].as_str().map(|c| (c.to_string(), v["detail"].as_str().unwrap_or("").to_string())))
}

/// child side of `exec_in_child`
pub fn hist_exec_main() -> i32 {
    let mut input = String::new();
    if std::io::Read::read_to_string(&mut std::io::stdin(), &mut input).is_err() {
        return 2;
    }
    let Ok(req) = serde_json::from_str::<Value>(&input) else { return 2 };
    let Ok(case) = serde_json::from_value::<HistCase>(req["case"].clone()) else { return 2 };
    let mode = if req["mode"].as_str() == Some("serde") { Mode::Serde } else { Mode::Purity };
    let mut st = HStats::default();
    match exec(&case, mode, &mut st) {
        Ok(()) => println!("{}", json!({"class": null})),
        Err(f) => println!("{}", json!({"class": f.class, "detail": f.detail})),
    }
    0
}

pub fn shrink(case: &HistCase, mode: Mode, fail: &HFail) -> (HistCase, u32) {
    let mut best = case.clone();
    best.ops.truncate(fail.op_index + 1);
    let class = fail.class.clone();
    if !fails_same(&best, mode, &class) {
        return (case.clone(), 0);
    }
    let mut steps = 1;
    // minimisation is bounded in wall time: a long interleaving (40 000 calls) must not
    // turn the report of a violation into a run that does not end
    let t0 = std::time::Instant::now();
    let expired = || t0.elapsed().as_secs_f64() > 30.0;
    // delta debugging: remove chunks of halving size first, single operations last
    let mut chunk = (best.ops.len() / 2).max(1);
    loop {
        let mut removed_any = false;
        let mut start = 0;
        while start < best.ops.len() && best.ops.len() > 1 && !expired() {
            let end = (start + chunk).min(best.ops.len());
            if end - start >= best.ops.len() {
                break;
            }
            let mut c = best.clone();
            c.ops.drain(start..end);
            if fails_same(&c, mode, &class) {
                best = c;
                steps += 1;
                removed_any = true;
            } else {
                start = end;
            }
        }
        if expired() {
            break;
        }
        if chunk == 1 {
            if !removed_any {
                break;
            }
        } else {
            chunk = (chunk / 2).max(1);
        }
    }
    // drop faults
    for s in 0..best.streams.len() {
        let mut j = best.streams[s].faults.len();
        while j > 0 {
            j -= 1;
            let mut c = best.clone();
            c.streams[s].faults.remove(j);
            if fails_same(&c, mode, &class) {
                best = c;
                steps += 1;
            }
        }
    }
    // shrink iter counts
    for i in 0..best.ops.len() {
        if let HOp::Iter { o, s, n } = best.ops[i].clone() {
            for m in 1..n {
                let mut c = best.clone();
                c.ops[i] = HOp::Iter { o, s, n: m };
                if fails_same(&c, mode, &class) {
                    best = c;
                    steps += 1;
                    break;
                }
            }
        }
    }
    // smallest seeds
    for s in 0..best.streams.len() {
        for cand in 0..8u64 {
            let mut c = best.clone();
            c.streams[s].seed = cand;
            if fails_same(&c, mode, &class) {
                best = c;
                steps += 1;
                break;
            }
        }
    }
    (best, steps)
}

// ---------------------------------------------------------------------------
// Thread schedules (C14): the `threads/` program under Miri's seeded scheduler
// ---------------------------------------------------------------------------

#[derive(Clone, Debug, Serialize, Deserialize)]
pub struct ThreadCase {
    pub kind: String,
    pub scenario: u64,
    pub miri_seed: u64,
    pub preemption_rate: f64,
    pub calls: u64,
}

pub enum ThreadOutcome {
    Ok(u64),
    Violation(String, String),
    Harness(String),
}

fn threads_dir() -> std::path::PathBuf {
    crate::runner::verif_dir().join("threads")
}

/// One (scenario, Miri seed) pair = one exactly repeatable interleaving.
pub fn run_thread_case(c: &ThreadCase) -> ThreadOutcome {
    use std::process::Command;
    let out = Command::new("cargo")
        .current_dir(threads_dir())
        .args(["+nightly", "miri", "run", "--offline", "-q", "--"])
        .arg(c.scenario.to_string())
        .arg(c.calls.to_string())
        .env("CARGO_NET_OFFLINE", "true")
        // deterministic floats: by default Miri adds random ulp errors to some float
        // operations, which made a sequential reference and a thread disagree on correct code
        .env("MIRIFLAGS", format!("-Zmiri-seed={} -Zmiri-preemption-rate={} -Zmiri-deterministic-floats", c.miri_seed, c.preemption_rate))
        .env_remove("RUSTFLAGS")
        .output();
    let out = match out {
        Ok(o) => o,
        Err(e) => return ThreadOutcome::Harness(format!("cannot run cargo miri: {e}")),
    };
    let so = String::from_utf8_lossy(&out.stdout);
    let se = String::from_utf8_lossy(&out.stderr);
    if let Some(l) = so.lines().find(|l| l.starts_with("THREADS-HARNESS")) {
        return ThreadOutcome::Harness(l.to_string());
    }
    if let Some(l) = so.lines().find(|l| l.starts_with("THREADS-VIOLATION")) {
        return ThreadOutcome::Violation("impure(thread-schedule)".into(), l.to_string());
    }
    if let Some(l) = so.lines().find(|l| l.starts_with("THREADS-OK")) {
        if out.status.success() {
            let d = l.rsplit("digest=").next().and_then(|x| u64::from_str_radix(x.trim(), 16).ok()).unwrap_or(0);
            return ThreadOutcome::Ok(d);
        }
    }
    // Miri itself stopped the program
    if se.contains("Data race detected") || se.contains("Undefined Behavior") {
        let l = se.lines().find(|l| l.contains("Undefined Behavior") || l.contains("Data race")).unwrap_or("").trim().to_string();
        return ThreadOutcome::Violation("impure(thread-schedule)".into(), format!("Miri: {l}"));
    }
    if se.contains("a sampling thread panicked") || se.contains("panicked at") {
        let l = se.lines().find(|l| l.contains("panicked at")).unwrap_or("").trim().to_string();
        return ThreadOutcome::Violation("panic(thread-schedule)".into(), format!("a sampling thread panicked: {l}"));
    }
    ThreadOutcome::Harness(format!("unexpected outcome of cargo miri run (status {:?}): {}", out.status.code(), se.lines().rev().take(6).collect::<Vec<_>>().join(" | ")))
}

fn thread_case(ctx_seed: u64, i: u64) -> ThreadCase {
    ThreadCase {
        kind: "thread-schedule".into(),
        scenario: mix(&[ctx_seed, 0x7EAD, i]) & 0xffff_ffff,
        miri_seed: i,
        preemption_rate: [0.02, 0.1, 0.3][(i % 3) as usize],
        calls: 48,
    }
}

// ---------------------------------------------------------------------------
// Engine
// ---------------------------------------------------------------------------

pub struct HistEngine {
    prop: &'static str,
    mode: Mode,
}
impl HistEngine {
    pub fn purity() -> Self {
        HistEngine { prop: "C14", mode: Mode::Purity }
    }
    pub fn serde() -> Self {
        HistEngine { prop: "C15", mode: Mode::Serde }
    }
}

fn plan(ctx: &Ctx) -> (usize, usize) {
    // (cases, histories per case)
    match ctx.tier {
        Tier::Quick => (128, 1200),
        Tier::Thorough => (1024, 8000),
    }
}

impl Engine for HistEngine {
    fn property(&self) -> &'static str {
        self.prop
    }
    fn level(&self) -> &'static str {
        "exploration"
    }
    fn rule(&self) -> String {
        if self.mode == Mode::Purity {
            "seeded search over interleavings: each history declares 1-3 base objects drawn from a registry of every public distribution type (both scalar types, every internal variant through the grids of E, weighted indices of all 13 weight types) plus clones and equal-parameter twins, 1-3 streams (shared between objects; 0-4 single-word faults from the boundary lattice at positions < 120), and 10-200 operations {sample, rng.sample(&d), sample_iter(n), clone-replace} on scheduler-chosen (object, stream) pairs. Every call is re-executed by a fresh object on a clone of the recorded pre-state. evaluations = sample calls incl. re-executions; a history is non-trivial iff at least two objects shared a stream or a fault fired; distinct_nontrivial = distinct (object family multiset, stream count, op-kind prefix) among those.".into()
        } else {
            "as C14, with restart faults (F7): serialize -> drop -> deserialize at scheduler-chosen points in two self-describing formats (in-harness value tree, lossless for all float bit patterns and 128-bit integers; serde_json where every stored float is finite). Oracle: a twin built from the same parameters that is never restarted, driven by clones of the same stream states. evaluations = sample calls + restarts; distinct_nontrivial = distinct (type, internal variant, format) triples that were restarted at least once and sampled afterwards.".into()
        }
    }
    fn assumptions(&self) -> Vec<String> {
        vec![
            "stream state = (xoshiro state, position, next pending fault): equality of post-states means identical word consumption".into(),
            "calls that panic or exhaust the word budget are skipped here (C03 / C05 judge them)".into(),
            "feature set {std, serde}".into(),
        ]
    }
    fn num_cases(&self, ctx: &Ctx) -> usize {
        plan(ctx).0
    }
    fn run_case(&self, ctx: &Ctx, index: usize) -> CaseResult {
        let (_, per) = plan(ctx);
        let pool = pool(ctx.seed);
        let mut res = CaseResult::new(index);
        let mut keys: BTreeSet<u64> = BTreeSet::new();
        let mut d = Digest::new();
        let mut seen: BTreeSet<String> = BTreeSet::new();
        let mut variants: BTreeSet<String> = BTreeSet::new();
        for h in 0..per {
            let mut r = SimRng::new(mix(&[ctx.seed, 0xC14, self.mode as u64, index as u64, h as u64]));
            let case = gen_case(&pool, &mut r, self.mode);
            let mut st = HStats::default();
            let out = exec(&case, self.mode, &mut st);
            res.evaluations += st.calls + st.reexecutions + st.twin_checks + st.restarts.values().sum::<u64>();
            res.sim_words += st.words;
            res.stat_sum("histories", 1.0);
            res.stat_sum("operations", st.ops as f64);
            res.stat_sum("calls", st.calls as f64);
            res.stat_sum("reexecutions", st.reexecutions as f64);
            res.stat_sum("twin_comparisons", st.twin_checks as f64);
            res.stat_sum("calls_skipped_because_they_panicked", st.panics_skipped as f64);
            res.stat_sum("json_restarts_skipped_nonfinite", st.json_skipped_nonfinite as f64);
            res.stat_sum("fresh_process_isolation_runs", st.isolation_runs as f64);
            res.inj("fresh-process-isolation", st.isolation_runs);
            res.fired("fresh-process-isolation", st.isolation_runs);
            res.inj("single-word", st.faults_total);
            res.fired("single-word", st.faults_fired);
            for (f, n) in &st.restarts {
                res.inj(&format!("F7-restart-{f}"), *n);
                res.fired(&format!("F7-restart-{f}"), *n);
            }
            d.add(st.digest);
            variants.extend(st.variants.iter().cloned());
            if self.mode == Mode::Purity {
                let shared = case.streams.len() < case.objects.len();
                if shared || st.faults_fired > 0 {
                    let mut fams: Vec<String> = case.objects.iter().map(|o| format!("{:?}{:?}", o.spec.family, o.spec.scalar)).collect();
                    fams.sort();
                    let kinds: String = case
                        .ops
                        .iter()
                        .take(10)
                        .map(|o| match o {
                            HOp::Sample { .. } => 's',
                            HOp::RngSample { .. } => 'r',
                            HOp::Iter { .. } => 'i',
                            HOp::CloneReplace { .. } => 'c',
                            HOp::CloneFrom { .. } => 'f',
                            HOp::Restart { .. } => 'R',
                        })
                        .collect();
                    keys.insert(hash_key(&[&fams.join(","), &case.streams.len().to_string(), &kinds]));
                }
            } else {
                // (type, variant, format) restarted and sampled afterwards
                let mut restarted: BTreeMap<usize, Fmt> = BTreeMap::new();
                for op in &case.ops {
                    match op {
                        HOp::Restart { o, fmt } => {
                            restarted.insert(*o, *fmt);
                        }
                        HOp::Sample { o, .. } | HOp::RngSample { o, .. } | HOp::Iter { o, .. } => {
                            if let Some(f) = restarted.get(o) {
                                if let Some(od) = case.objects.get(*o) {
                                    keys.insert(hash_key(&[&od.spec.label(), &format!("{f:?}")]));
                                }
                            }
                        }
                        _ => {}
                    }
                }
            }
            if let Err(f) = out {
                d.add_str(&f.class);
                if f.class == "harness" {
                    res.notes.push(format!("harness: {}", f.detail));
                    continue;
                }
                if !seen.insert(format!("{}|{}", f.class, f.family)) {
                    continue;
                }
                let (mut min_case, mut steps) = shrink(&case, self.mode, &f);
                let mut st2 = HStats::default();
                let mut detail = match exec(&min_case, self.mode, &mut st2) {
                    Err(f2) => f2.detail,
                    Ok(()) => f.detail.clone(),
                };
                let mut sig = BTreeMap::new();
                sig.insert("family".into(), f.family.clone());
                sig.insert("class".into(), f.class.clone());
                // A replay file must fail in a FRESH process.  A failure that depends on
                // process-wide hidden state (a static / thread-local memo filled by earlier
                // calls) may not: then minimise with a fresh-process predicate, and if even the
                // full history passes on its own, the replay is "this case up to history h".
                let same = |r: &Result<Option<(String, String)>, String>| matches!(r, Ok(Some((c, _))) if *c == f.class);
                let mut cj;
                if same(&exec_in_child(&min_case, self.mode)) {
                    cj = serde_json::to_value(&min_case).unwrap();
                } else if same(&exec_in_child(&case, self.mode)) {
                    FRESH_PREDICATE.with(|p| p.set(true));
                    let (m2, s2) = shrink(&case, self.mode, &f);
                    FRESH_PREDICATE.with(|p| p.set(false));
                    min_case = m2;
                    steps = s2;
                    if let Ok(Some((_, d))) = exec_in_child(&min_case, self.mode) {
                        detail = d;
                    }
                    detail = format!("{detail} [minimised with every candidate executed in a fresh process: the failure depends on process-wide state]");
                    cj = serde_json::to_value(&min_case).unwrap();
                } else {
                    detail = format!("{} [fails only after histories 0..{h} of case {index} ran in the same process: process-wide hidden state; the replay re-runs that prefix in a fresh process]", f.detail);
                    cj = json!({"kind": "history-prefix", "case_index": index, "upto": h, "seed": ctx.seed});
                }
                cj["minimised_from"] = json!({"ops": case.ops.len(), "objects": case.objects.len(), "shrink_steps": steps});
                res.violations.push(Violation { class: f.class.clone(), detail, sig, case: cj });
            }
            if h == 0 && index < 3 {
                res.samples.push(json!({
                    "objects": case.objects.iter().map(|o| format!("{} ({:?})", o.spec.label(), o.how)).collect::<Vec<_>>(),
                    "streams": case.streams,
                    "ops": case.ops.iter().take(12).collect::<Vec<_>>(),
                    "ops_total": case.ops.len(),
                }));
            }
        }
        for v in &variants {
            res.notes.push(format!("variant:{v}"));
        }
        res.keys = keys.into_iter().collect();
        res.digest = d.0;
        res
    }
    fn post_stage(&self, ctx: &Ctx, index: usize) -> Result<Option<CaseResult>, String> {
        if self.mode != Mode::Purity || std::env::var("VERIF_NO_THREADS").is_ok() {
            return Ok(None);
        }
        let n: u64 = if ctx.tier == Tier::Thorough { 3072 } else { 320 };
        // build once (serially); a failure here is a harness error, not a verdict
        match run_thread_case(&thread_case(ctx.seed, 0)) {
            ThreadOutcome::Harness(e) => return Err(e),
            _ => {}
        }
        let next = std::sync::atomic::AtomicU64::new(0);
        let results: Mutex<Vec<(u64, ThreadCase, ThreadOutcome)>> = Mutex::new(Vec::new());
        let workers = std::thread::available_parallelism().map(|x| x.get()).unwrap_or(4);
        std::thread::scope(|sc| {
            for _ in 0..workers {
                sc.spawn(|| loop {
                    let i = next.fetch_add(1, std::sync::atomic::Ordering::SeqCst);
                    if i >= n {
                        break;
                    }
                    let c = thread_case(ctx.seed, i);
                    let o = run_thread_case(&c);
                    results.lock().unwrap().push((i, c, o));
                });
            }
        });
        let mut rs = results.into_inner().unwrap();
        rs.sort_by_key(|r| r.0);
        let mut res = CaseResult::new(index);
        let mut d = Digest::new();
        let mut seen: BTreeSet<String> = BTreeSet::new();
        for (i, c, o) in rs {
            res.evaluations += c.calls * 3;
            res.inj("S-thread-schedule(miri)", 1);
            res.fired("S-thread-schedule(miri)", 1);
            res.stat_sum("thread_schedules_explored(miri_seeded)", 1.0);
            match o {
                ThreadOutcome::Ok(dg) => {
                    d.add(dg);
                    res.keys.push(hash_key(&["thread-schedule", &c.scenario.to_string(), &c.miri_seed.to_string()]));
                }
                ThreadOutcome::Violation(class, detail) => {
                    d.add_str(&class);
                    let fam = detail.split("group=\"").nth(1).and_then(|x| x.split('"').next()).unwrap_or("").to_string();
                    if !seen.insert(format!("{class}|{fam}")) {
                        continue;
                    }
                    let mut sig = BTreeMap::new();
                    sig.insert("family".into(), fam);
                    sig.insert("class".into(), class.clone());
                    res.violations.push(Violation {
                        class,
                        detail: format!("{detail} [schedule {i}: scenario {}, Miri seed {}, preemption rate {}]", c.scenario, c.miri_seed, c.preemption_rate),
                        sig,
                        case: serde_json::to_value(&c).unwrap(),
                    });
                }
                ThreadOutcome::Harness(e) => return Err(e),
            }
        }
        res.samples.push(json!({"thread_schedules": n, "program": "threads/ (2-3 threads, related values, own streams; each thread must reproduce what the value returned alone)", "scheduler": "Miri -Zmiri-seed=i -Zmiri-preemption-rate in {0.02, 0.1, 0.3}"}));
        res.digest = d.0;
        Ok(Some(res))
    }
    fn fresh_worker_per_case(&self) -> bool {
        // a change that adds process-wide hidden state must not make the result of a case
        // depend on which cases the same worker ran before
        true
    }
    fn replay(&self, ctx: &Ctx, case: &Value) -> Result<Vec<Violation>, String> {
        if case["kind"].as_str() == Some("thread-schedule") {
            let c: ThreadCase = serde_json::from_value(case.clone()).map_err(|e| format!("bad replay case: {e}"))?;
            println!("replay: thread schedule: scenario {} under Miri seed {} (preemption rate {})", c.scenario, c.miri_seed, c.preemption_rate);
            return match run_thread_case(&c) {
                ThreadOutcome::Ok(d) => {
                    println!("replay: outcome ok (digest {d:016x})");
                    Ok(vec![])
                }
                ThreadOutcome::Violation(class, detail) => {
                    println!("replay: outcome class={class}: {detail}");
                    let mut sig = BTreeMap::new();
                    sig.insert("class".into(), class.clone());
                    Ok(vec![Violation { class, detail, sig, case: case.clone() }])
                }
                ThreadOutcome::Harness(e) => Err(e),
            };
        }
        if case["kind"].as_str() == Some("history-prefix") {
            let index = case["case_index"].as_u64().ok_or("case_index")? as usize;
            let upto = case["upto"].as_u64().ok_or("upto")? as usize;
            println!("replay: histories 0..={upto} of case {index}, in this fresh process");
            let pool = pool(ctx.seed);
            let mut out = vec![];
            for h in 0..=upto {
                let mut r = SimRng::new(mix(&[ctx.seed, 0xC14, self.mode as u64, index as u64, h as u64]));
                let c = gen_case(&pool, &mut r, self.mode);
                let mut st = HStats::default();
                if let Err(f) = exec(&c, self.mode, &mut st) {
                    println!("replay: history {h}: outcome class={} at op {}: {}", f.class, f.op_index, f.detail);
                    let mut sig = BTreeMap::new();
                    sig.insert("family".into(), f.family.clone());
                    sig.insert("class".into(), f.class.clone());
                    out.push(Violation { class: f.class, detail: f.detail, sig, case: case.clone() });
                }
            }
            if out.is_empty() {
                println!("replay: outcome ok");
            }
            return Ok(out);
        }
        let c: HistCase = serde_json::from_value(case.clone()).map_err(|e| format!("bad replay case: {e}"))?;
        println!("replay: {} objects, {} streams, {} ops", c.objects.len(), c.streams.len(), c.ops.len());
        for (i, o) in c.objects.iter().enumerate() {
            println!("  object {i}: {} {:?}", o.spec.label(), o.how);
        }
        for (i, s) in c.streams.iter().enumerate() {
            println!("  stream {i}: seed {} faults {:?}", s.seed, s.faults);
        }
        for (i, o) in c.ops.iter().enumerate() {
            println!("  op {i}: {}", serde_json::to_string(o).unwrap());
        }
        let mut st = HStats::default();
        match exec(&c, self.mode, &mut st) {
            Ok(()) => {
                println!("replay: outcome ok");
                Ok(vec![])
            }
            Err(f) => {
                println!("replay: outcome class={} at op {}: {}", f.class, f.op_index, f.detail);
                let mut sig = BTreeMap::new();
                sig.insert("family".into(), f.family.clone());
                sig.insert("class".into(), f.class.clone());
                Ok(vec![Violation { class: f.class, detail: f.detail, sig, case: case.clone() }])
            }
        }
    }
}
