//! C01 / C02 / C11 / C12 — law of the recorded output history against reference laws.
//!
//! The simulator supplies seeded ideal streams through the seam, records the outputs and
//! tests them afterwards.  One case = one configuration.  Edges are fixed from a pilot
//! stream and oracle tail quantiles before the main stream is drawn; the decision rule is
//! the resolution-aware DKW + per-cell Chernoff rule of `lawcore` with screening at 1e-7
//! and confirmation (independent stream, 4x N) at 1e-9.
//!
//! C02 additionally enumerates the single uniform of the inverse-transform samplers
//! (BINV, HIN) over an exact mid-cell lattice (fault kind L).

use crate::envelope as env;
use crate::lawcore::{pilot_edges, table_cont_scaled, ulp_out, Edge, EdgeTable, JudgeInfo, Reject};
use crate::registry::{build_caught, dirichlet_to_slice, DistSpec, Family, Obj, Out, Scalar};
use crate::runner::{guarded, hash_key, mark_call, tick, CaseResult, Caught, Ctx, Digest, Engine, Tier, Violation};
use crate::simrng::{lattice_word, mix, Inject, SimRng};
use crate::stats::{ALPHA_CONFIRM, ALPHA_SCREEN};
use crate::support;
use serde::{Deserialize, Serialize};
use serde_json::{json, Value};
use std::collections::BTreeMap;
use vorac::{Cont, Disc};

pub struct LawEngine {
    prop: &'static str,
}
impl LawEngine {
    pub fn new(prop: &'static str) -> Self {
        LawEngine { prop }
    }
}

#[derive(Clone, Debug, Serialize, Deserialize)]
pub struct LawCase {
    pub kind: String, // "law-cont" | "law-disc" | "lattice" | "dirichlet" | "geometry"
    pub spec: DistSpec,
    pub n: u64,
    pub seed: u64,
    #[serde(default)]
    pub m: u64,
}

// ---------------------------------------------------------------------------
// spec -> reference law
// ---------------------------------------------------------------------------

pub fn to_cont(spec: &DistSpec) -> Option<Cont> {
    let p = &spec.p;
    Some(match spec.family {
        Family::StandardNormal => Cont::Normal { mean: 0.0, sd: 1.0 },
        Family::Normal => Cont::Normal { mean: p[0], sd: p[1] },
        Family::NormalMeanCv => Cont::Normal { mean: p[0], sd: p[0] * p[1] },
        Family::LogNormal => Cont::LogNormal { mu: p[0], sigma: p[1] },
        Family::LogNormalMeanCv => {
            let s2 = (1.0 + p[1] * p[1]).ln();
            Cont::LogNormal { mu: p[0].ln() - 0.5 * s2, sigma: s2.sqrt() }
        }
        Family::Exp1 => Cont::Exp { lambda: 1.0 },
        Family::Exp => Cont::Exp { lambda: p[0] },
        Family::Gamma => Cont::Gamma { shape: p[0], scale: p[1] },
        Family::ChiSquared => Cont::ChiSquared { k: p[0] },
        Family::StudentT => Cont::StudentT { nu: p[0] },
        Family::FisherF => Cont::FisherF { m: p[0], n: p[1] },
        Family::Beta => Cont::Beta { a: p[0], b: p[1] },
        Family::Pert => Cont::Pert { min: p[0], max: p[1], mode: p[2], shape: p[3] },
        Family::PertMean => Cont::Pert { min: p[0], max: p[1], mode: ((p[3] + 2.0) * p[2] - p[0] - p[1]) / p[3], shape: p[3] },
        Family::Triangular => Cont::Triangular { min: p[0], max: p[1], mode: p[2] },
        Family::Cauchy => Cont::Cauchy { median: p[0], scale: p[1] },
        Family::Pareto => Cont::Pareto { scale: p[0], shape: p[1] },
        Family::Weibull => Cont::Weibull { scale: p[0], shape: p[1] },
        Family::Gumbel => Cont::Gumbel { loc: p[0], scale: p[1] },
        Family::Frechet => Cont::Frechet { loc: p[0], scale: p[1], shape: p[2] },
        Family::SkewNormal => Cont::SkewNormal { loc: p[0], scale: p[1], shape: p[2] },
        Family::InverseGaussian => Cont::InverseGaussian { mean: p[0], shape: p[1] },
        Family::Nig => Cont::Nig { alpha: p[0], beta: p[1] },
        _ => return None,
    })
}

pub fn to_disc(spec: &DistSpec) -> Option<Disc> {
    Some(match spec.family {
        Family::Binomial => Disc::Binomial { n: spec.n[0], p: spec.p[0] },
        Family::Poisson => Disc::Poisson { lambda: spec.p[0] },
        Family::Geometric => Disc::Geometric { p: spec.p[0] },
        Family::StandardGeometric => Disc::Geometric { p: 0.5 },
        Family::Hypergeometric => Disc::Hypergeometric { total: spec.n[0], feature: spec.n[1], draws: spec.n[2] },
        Family::Zipf => Disc::Zipf { n: spec.p[0] as u64, s: spec.p[1] },
        Family::Zeta => Disc::Zeta { s: spec.p[0] },
        _ => return None,
    })
}

// ---------------------------------------------------------------------------
// outcome of a law test
// ---------------------------------------------------------------------------

#[derive(Default)]
pub struct LawOut {
    pub samples: u64,
    pub words: u64,
    pub info: JudgeInfo,
    pub screen_rejects: u64,
    pub violation: Option<(String, String)>, // class, detail
    /// signature tags of a law violation (size and place of the deviation)
    pub vtags: Vec<String>,
    /// stuck-source bursts executed (geometry)
    pub bursts: u64,
    /// candidate-lattice runs executed (geometry)
    pub lattice_runs: u64,
    pub digest: u64,
    pub skipped_tests: u64,
}

const TAIL_PS: [f64; 5] = [1e-6, 1e-5, 1e-4, 1e-3, 1e-2];
const BUF: usize = 4096;

/// generic scalar-stream test: `draw(rng, buf)` fills f64 samples; `bad(x)` classifies an
/// invalid sample (NaN / out of support)
#[allow(clippy::too_many_arguments)]
fn scalar_law_test(
    label: &str,
    draw: &mut dyn FnMut(&mut SimRng, &mut [f64]) -> Result<(), (String, String)>,
    bad: &dyn Fn(f64) -> Option<(String, String)>,
    f32_: bool,
    cdf: &dyn Fn(f64) -> f64,
    sf: &dyn Fn(f64) -> f64,
    quantile: Option<&dyn Fn(f64) -> f64>,
    delta: &dyn Fn(f64) -> f64,
    n: u64,
    n_central: usize,
    seed: u64,
    extra: f64,
    zone_scale: f64,
) -> LawOut {
    let mut out = LawOut::default();
    let mut buf = vec![0f64; BUF];
    let mut dg = Digest::new();
    // ---- pilot ------------------------------------------------------------------
    let mut pilot: Vec<f64> = Vec::with_capacity(2 * BUF);
    let mut rng = SimRng::new(mix(&[seed, 1]));
    for _ in 0..2 {
        mark_call(0);
        if let Err(v) = draw(&mut rng, &mut buf) {
            out.violation = Some(v);
            return out;
        }
        for &x in buf.iter() {
            if let Some(v) = bad(x) {
                out.violation = Some(v);
                out.samples += pilot.len() as u64;
                return out;
            }
        }
        pilot.extend_from_slice(&buf);
    }
    out.samples += pilot.len() as u64;
    out.words += rng.pos;
    let mut cand = pilot_edges(&mut pilot, n_central);
    if let Some(q) = quantile {
        for p in TAIL_PS {
            tick();
            cand.push(q(p));
            tick();
            cand.push(q(1.0 - p));
        }
    }
    let table = table_cont_scaled(cand, f32_, zone_scale, cdf, sf, delta);
    // ---- main + confirmation -----------------------------------------------------
    let mut run = |n: u64, seed: u64, out: &mut LawOut, dg: &mut Digest| -> Result<Vec<u64>, (String, String)> {
        let mut counts = vec![0u64; table.n_cells()];
        let mut rng = SimRng::new(seed);
        let mut done = 0u64;
        while done < n {
            mark_call(done / BUF as u64);
            draw(&mut rng, &mut buf)?;
            for &x in buf.iter() {
                if x.is_nan() {
                    return Err(bad(x).unwrap_or(("nan".into(), "NaN".into())));
                }
                if let Some(v) = bad(x) {
                    return Err(v);
                }
                counts[table.cell_of(x)] += 1;
            }
            dg.add(buf[0].to_bits());
            done += BUF as u64;
        }
        out.samples += done;
        out.words += rng.pos;
        Ok(counts)
    };
    let counts = match run(n, mix(&[seed, 2]), &mut out, &mut dg) {
        Ok(c) => c,
        Err(v) => {
            out.violation = Some(v);
            out.digest = dg.0;
            return out;
        }
    };
    let (rej, info) = table.judge(&counts, ALPHA_SCREEN, extra);
    out.info = info;
    if !rej.is_empty() {
        out.screen_rejects += 1;
        match run(4 * n, mix(&[seed, 3]), &mut out, &mut dg) {
            Err(v) => out.violation = Some(v),
            Ok(c2) => {
                let (rej2, _) = table.judge(&c2, ALPHA_CONFIRM, extra);
                let mut vt = Vec::new();
                out.violation = confirmed(label, &rej, n, &rej2, 4 * n, &mut vt);
                out.vtags = vt;
            }
        }
    }
    out.digest = dg.0;
    out
}

/// a violation is declared only if the same kind of test rejects on both streams
fn confirmed(label: &str, r1: &[Reject], n1: u64, r2: &[Reject], n2: u64, tags: &mut Vec<String>) -> Option<(String, String)> {
    for a in r1 {
        for b in r2 {
            if a.test == b.test {
                *tags = b.tags();
                return Some((format!("law({})", a.test), describe(label, a, n1, b, n2)));
            }
        }
    }
    None
}

fn describe(label: &str, r1: &Reject, n1: u64, r2: &Reject, n2: u64) -> String {
    format!(
        "{label}: {} test: {} observed {:.6e}, reference in [{:.6e}, {:.6e}] (margin {:.2}, N = {n1}); confirmed on an independent stream: {} observed {:.6e}, reference in [{:.6e}, {:.6e}] (margin {:.2}, N = {n2})",
        r1.test, r1.region, r1.observed, r1.expected_lo, r1.expected_hi, r1.margin, r2.region, r2.observed, r2.expected_lo, r2.expected_hi, r2.margin
    )
}

// ---------------------------------------------------------------------------
// restart equivalence of rejection loops (C01 / C02 / C12)
// ---------------------------------------------------------------------------

/// Probes (see `fault::PROBE_NAMES`) that mark "a candidate was rejected and the WHOLE
/// call starts over", per family.  Only samplers whose rejection restarts from the first
/// draw of the call qualify (Gamma with shape < 1 draws its boost uniform first; Poisson's
/// step E loops back inside the call; composite families nest other samplers): there a
/// fresh call on the rest of the stream is a different experiment.
fn restart_probes(spec: &DistSpec) -> Option<u128> {
    let bits = |ids: &[u8]| ids.iter().fold(0u128, |m, i| m | (1u128 << i));
    match spec.family {
        // the geometry samplers have no probes: a candidate is 2 (3) words, so more words
        // than that means a rejection (mask 0 = "decide by the word count")
        Family::UnitCircle | Family::UnitDisc | Family::UnitSphere | Family::UnitBall => Some(0),
        Family::Beta => Some(bits(&[18, 19, 21, 23])),
        // shape >= 1 (Marsaglia-Tsang on a normal); ziggurat wedge rejections of that
        // normal (4) restart the first draw of the call as well
        Family::Gamma if spec.p[0] > 1.0 => Some(bits(&[10, 13, 4])),
        Family::Binomial => Some(bits(&[25, 27, 29, 31, 36])),
        Family::Hypergeometric => Some(bits(&[55])),
        Family::StandardNormal | Family::Normal => Some(bits(&[4])),
        Family::Exp1 | Family::Exp => Some(bits(&[8])),
        _ => None,
    }
}

/// A rejected candidate must leave no trace: if a call that started at stream position p
/// consumed n words, returned x and took a "rejected, start over" branch, then for some
/// 0 < j < n a fresh call started at position p + j returns the same bits and stops at the
/// same position (j = the words eaten by the rejected candidates).  A loop that carries
/// anything over from a rejected candidate -- a stale draw, a flag, a skipped test on the
/// retry path -- has no such j.  Deterministic, no statistics.
/// Returns (calls, calls with a rejection, violation).
pub fn restart_equivalence(spec: &DistSpec, calls: u64, seed: u64) -> Result<(u64, u64, Option<(String, String)>), String> {
    let Some(mask_reject) = restart_probes(spec) else { return Ok((0, 0, None)) };
    let obj = build_caught(spec)?;
    let obj: &dyn Obj = &*obj;
    let label = spec.label();
    let mut rng = SimRng::new(mix(&[seed, 0x2E57]));
    let mut rejected = 0u64;
    let _ = rand_distr::verif_hooks::take_probes();
    for k in 0..calls {
        if k & 0x3ff == 0 {
            mark_call(k);
        }
        let start = rng.clone();
        rng.budget = rng.pos + 100_000;
        let x = match guarded(|| obj.sample(&mut rng)) {
            Caught::Ok(o) => o,
            _ => {
                let _ = rand_distr::verif_hooks::take_probes();
                return Ok((k, rejected, None)); // panics / budgets are judged elsewhere
            }
        };
        let mask = rand_distr::verif_hooks::take_probes();
        let n = rng.pos - start.pos;
        let rejected_here = if mask_reject == 0 {
            n > if spec.family == Family::UnitBall { 3 } else { 2 }
        } else {
            mask & mask_reject != 0
        };
        if !rejected_here || n < 2 {
            continue;
        }
        rejected += 1;
        let mut found = false;
        for j in 1..n.min(4096) {
            let mut b = start.clone();
            for _ in 0..j {
                b.word();
            }
            b.budget = b.pos + 100_000;
            let y = guarded(|| obj.sample(&mut b));
            let _ = rand_distr::verif_hooks::take_probes();
            if let Caught::Ok(y) = y {
                if y.same_bits(&x) && b.pos == rng.pos {
                    found = true;
                    break;
                }
            }
        }
        if !found {
            return Ok((
                k,
                rejected,
                Some((
                    "replica-mismatch(restart)".into(),
                    format!(
                        "{label}: call {k} (stream seed {}, position {}) rejected a candidate, consumed {n} words and returned {}; no fresh call started 1..{} words later returns that value at the same final position: the rejection loop carries state from the rejected candidate",
                        mix(&[seed, 0x2E57]),
                        start.pos,
                        x.show(),
                        n - 1
                    ),
                )),
            ));
        }
    }
    Ok((calls, rejected, None))
}

// ---------------------------------------------------------------------------
// continuous (C01)
// ---------------------------------------------------------------------------

/// scale by which a family multiplies its standardised variate last (see lawcore)
pub fn zone_scale_of(spec: &DistSpec) -> f64 {
    let p = &spec.p;
    let s = match spec.family {
        Family::Weibull | Family::Pareto => p[0],
        Family::Gamma => p[1],
        Family::Exp => 1.0 / p[0],
        Family::ChiSquared => 2.0,
        Family::InverseGaussian => p[0],
        Family::Normal | Family::Cauchy | Family::Gumbel | Family::Frechet | Family::SkewNormal => p[1].abs(),
        _ => 1.0,
    };
    if s.is_finite() {
        s.abs().max(1.0)
    } else {
        1.0
    }
}

pub fn cont_test(spec: &DistSpec, n: u64, seed: u64, n_central: usize) -> Result<LawOut, String> {
    let obj = build_caught(spec)?;
    let law = to_cont(spec).ok_or("no reference law")?;
    let f32_ = spec.scalar == Scalar::F32;
    let obj: &dyn Obj = &*obj;
    let label = spec.label();
    let mut draw = |rng: &mut SimRng, buf: &mut [f64]| -> Result<(), (String, String)> {
        rng.budget = rng.pos + 100_000 * buf.len() as u64;
        match guarded(|| obj.fill_f64(rng, buf)) {
            Caught::Ok(true) => Ok(()),
            Caught::Ok(false) => Err(("harness".into(), "not a scalar sampler".into())),
            Caught::Panic { msg, loc } => Err(("panic".into(), format!("{label}: {msg} @ {loc}"))),
            Caught::Budget(_) => Err(("word-budget".into(), format!("{label}: word budget exceeded"))),
        }
    };
    let out_of = |x: f64| if f32_ { Out::F32(x as f32) } else { Out::F64(x) };
    let bad = |x: f64| support::check(spec, &out_of(x)).map(|(c, d)| (c.to_string(), format!("{label}: {d}")));
    let cdf = |x: f64| law.cdf(x);
    let sf = |x: f64| law.sf(x);
    let q = |p: f64| law.quantile(p);
    let delta = |e: f64| 2.0 * ulp_out(e, f32_);
    Ok(scalar_law_test(&label, &mut draw, &bad, f32_, &cdf, &sf, Some(&q), &delta, n, n_central, seed, 1e-12, zone_scale_of(spec)))
}

// ---------------------------------------------------------------------------
// discrete (C02)
// ---------------------------------------------------------------------------

fn disc_value(spec: &DistSpec, x: f64) -> Result<u64, (String, String)> {
    // float-valued discrete samplers (Poisson, Zipf, Zeta)
    if let Some((c, d)) = support::check(spec, &if spec.scalar == Scalar::F32 { Out::F32(x as f32) } else { Out::F64(x) }) {
        return Err((c.to_string(), format!("{}: {d}", spec.label())));
    }
    Ok(if x.is_infinite() { u64::MAX } else { x as u64 })
}

pub fn disc_test(spec: &DistSpec, n: u64, seed: u64) -> Result<LawOut, String> {
    let obj = build_caught(spec)?;
    let law = to_disc(spec).ok_or("no reference law")?;
    let obj: &dyn Obj = &*obj;
    let label = spec.label();
    let float_valued = matches!(spec.family, Family::Poisson | Family::Zipf | Family::Zeta);
    let mut out = LawOut::default();
    let mut fb = vec![0f64; BUF];
    let mut ub = vec![0u64; BUF];
    let mut dg = Digest::new();
    let draw = |rng: &mut SimRng, ub: &mut [u64], fb: &mut [f64]| -> Result<(), (String, String)> {
        rng.budget = rng.pos + 100_000 * ub.len() as u64;
        let r = if float_valued { guarded(|| obj.fill_f64(rng, fb)) } else { guarded(|| obj.fill_u64(rng, ub)) };
        match r {
            Caught::Ok(true) => {}
            Caught::Ok(false) => return Err(("harness".into(), "not a scalar sampler".into())),
            Caught::Panic { msg, loc } => return Err(("panic".into(), format!("{label}: {msg} @ {loc}"))),
            Caught::Budget(_) => return Err(("word-budget".into(), format!("{label}: word budget exceeded"))),
        }
        if float_valued {
            for (u, &x) in ub.iter_mut().zip(fb.iter()) {
                *u = disc_value(spec, x)?;
            }
        } else {
            for &k in ub.iter() {
                if let Some((c, d)) = support::check(spec, &Out::U64(k)) {
                    return Err((c.to_string(), format!("{label}: {d}")));
                }
            }
        }
        Ok(())
    };
    // pilot
    let mut pilot: Vec<u64> = Vec::new();
    let mut rng = SimRng::new(mix(&[seed, 1]));
    for _ in 0..2 {
        mark_call(0);
        if let Err(v) = draw(&mut rng, &mut ub, &mut fb) {
            out.violation = Some(v);
            return Ok(out);
        }
        pilot.extend_from_slice(&ub);
    }
    out.samples += pilot.len() as u64;
    out.words += rng.pos;
    pilot.sort_unstable();
    let (slo, shi) = law.support();
    tick();
    let qlo = law.quantile(1e-7).max(slo);
    tick();
    let qhi = law.quantile(1.0 - 1e-7).min(shi);
    let mut ks: Vec<u64> = Vec::new();
    if qhi >= qlo && qhi - qlo <= 3000 {
        ks.extend(qlo..=qhi);
    } else {
        let m = pilot.len();
        for k in 1..512 {
            ks.push(pilot[(k * m / 512).min(m - 1)]);
        }
        for k in [0usize, 1, 3, 7, 15, 31] {
            ks.push(pilot[k]);
            ks.push(pilot[m - 1 - k]);
        }
        for p in TAIL_PS {
            tick();
            ks.push(law.quantile(p));
            tick();
            ks.push(law.quantile(1.0 - p));
        }
        // mode and neighbours
        let mode = law.quantile(0.5);
        ks.extend([mode.saturating_sub(1), mode, mode.saturating_add(1)]);
        ks.extend([slo, slo.saturating_add(1)]);
        if shi != u64::MAX {
            ks.extend([shi.saturating_sub(1), shi]);
        }
    }
    ks.retain(|k| *k >= slo && *k <= shi && *k != u64::MAX);
    ks.sort_unstable();
    ks.dedup();
    tick();
    let tab = law.table(&ks);
    tick();
    let extra = law.err_bound().max(law.table_err_bound()).max(1e-12);
    let table = EdgeTable { edges: ks.iter().zip(tab.iter()).map(|(&k, &(c, s))| Edge { e: k, c_lo: c, c_hi: c, s_lo: s, s_hi: s }).collect() };
    let mut run = |n: u64, seed: u64, out: &mut LawOut, dg: &mut Digest| -> Result<Vec<u64>, (String, String)> {
        let mut counts = vec![0u64; table.n_cells()];
        let mut rng = SimRng::new(seed);
        let mut done = 0u64;
        while done < n {
            mark_call(done / BUF as u64);
            draw(&mut rng, &mut ub, &mut fb)?;
            for &k in ub.iter() {
                counts[table.cell_of(k)] += 1;
            }
            dg.add(ub[0]);
            done += BUF as u64;
        }
        out.samples += done;
        out.words += rng.pos;
        Ok(counts)
    };
    match run(n, mix(&[seed, 2]), &mut out, &mut dg) {
        Err(v) => out.violation = Some(v),
        Ok(counts) => {
            let (rej, info) = table.judge(&counts, ALPHA_SCREEN, extra);
            out.info = info;
            if !rej.is_empty() {
                out.screen_rejects += 1;
                match run(4 * n, mix(&[seed, 3]), &mut out, &mut dg) {
                    Err(v) => out.violation = Some(v),
                    Ok(c2) => {
                        let (rej2, _) = table.judge(&c2, ALPHA_CONFIRM, extra);
                        let mut vt = Vec::new();
                        out.violation = confirmed(&label, &rej, n, &rej2, 4 * n, &mut vt);
                        out.vtags = vt;
                    }
                }
            }
        }
    }
    out.digest = dg.0;
    Ok(out)
}

/// Exact lattice enumeration of the single uniform of BINV / HIN.  Returns
/// Ok(None) if the sampler is not single-draw for this configuration.
pub fn lattice_test(spec: &DistSpec, m: u64, seed: u64) -> Result<Option<LawOut>, String> {
    let obj = build_caught(spec)?;
    let law = to_disc(spec).ok_or("no reference law")?;
    let obj: &dyn Obj = &*obj;
    let label = spec.label();
    let mut out = LawOut::default();
    let (slo, shi) = law.support();
    if shi == u64::MAX || shi - slo > 100_000 {
        return Ok(None);
    }
    let mut counts = vec![0u64; (shi - slo + 1) as usize];
    let mut last: Option<u64> = None;
    // Binomial with p > 1/2 is sampled as n - BINV(1-p): monotone decreasing in the word
    let mut direction: i32 = 0;
    for j in 0..m {
        if j & 0xfff == 0 {
            mark_call(j);
        }
        let mut rng = SimRng::one_fault(seed, 0, Inject::Word(lattice_word(j, m)));
        rng.budget = 64;
        let k = match guarded(|| obj.sample(&mut rng)) {
            Caught::Ok(Out::U64(k)) => k,
            Caught::Ok(o) => return Err(format!("unexpected output {o:?}")),
            Caught::Panic { msg, loc } => {
                out.violation = Some(("panic".into(), format!("{label}: lattice word {:#x}: {msg} @ {loc}", lattice_word(j, m))));
                return Ok(Some(out));
            }
            Caught::Budget(_) => return Ok(None),
        };
        if rng.pos != 1 {
            return Ok(None); // not a single-draw configuration (BINV restart or BTPE/H2PE)
        }
        if k < slo || k > shi {
            out.violation = Some(("out-of-support".into(), format!("{label}: lattice word {:#x} -> {k} outside [{slo},{shi}]", lattice_word(j, m))));
            return Ok(Some(out));
        }
        if let Some(l) = last {
            let dir = (k as i128 - l as i128).signum() as i32;
            if dir != 0 {
                if direction == 0 {
                    direction = dir;
                } else if dir != direction {
                    out.violation = Some(("law(lattice-monotone)".into(), format!("{label}: output is not monotone in the uniform: {l} then {k} at lattice point {j} of {m}")));
                    return Ok(Some(out));
                }
            }
        }
        last = Some(k);
        counts[(k - slo) as usize] += 1;
    }
    out.samples = m;
    out.words = m;
    let nsupp = (shi - slo + 1) as f64;
    let tol = 1.0 + m as f64 * (2.0_f64.powi(-50) * nsupp + 1e-12);
    let mut worst: f64 = 0.0;
    for (i, &c) in counts.iter().enumerate() {
        let k = slo + i as u64;
        let want = m as f64 * law.pmf(k);
        let dev = (c as f64 - want).abs();
        if dev > worst {
            worst = dev;
        }
        if dev > tol && out.violation.is_none() {
            out.violation = Some((
                "law(exact-lattice)".into(),
                format!("{label}: value {k} is returned for {c} of the {m} equispaced uniforms, but M*pmf({k}) = {want:.4} (tolerance {tol:.3})"),
            ));
        }
    }
    out.info.worst_cell_margin = worst / tol;
    let mut dg = Digest::new();
    for c in &counts {
        dg.add(*c);
    }
    out.digest = dg.0;
    Ok(Some(out))
}

// ---------------------------------------------------------------------------
// Dirichlet (C11)
// ---------------------------------------------------------------------------

pub fn dirichlet_test(spec: &DistSpec, n: u64, seed: u64) -> Result<(LawOut, u64), String> {
    let obj = build_caught(spec)?;
    let obj: &dyn Obj = &*obj;
    let label = spec.label();
    let f32_ = spec.scalar == Scalar::F32;
    let alpha = &spec.p;
    let len = alpha.len();
    let sum_a: f64 = alpha.iter().sum();
    let eps = if f32_ { f32::EPSILON as f64 } else { f64::EPSILON };
    let tau = if f32_ { 2.0_f64.powi(-6) } else { 2.0_f64.powi(-16) };
    let mut total = LawOut::default();
    let mut tests = 0u64;
    // sample_to_slice == sample on cloned streams
    {
        let mut a = SimRng::new(mix(&[seed, 9]));
        let mut b = a.clone();
        for k in 0..(200_000 / alpha.len() as u64).max(2_000) {
            mark_call(k);
            a.budget = a.pos + 1_000_000;
            b.budget = a.budget;
            let x = guarded(|| obj.sample(&mut a));
            let y = guarded(|| dirichlet_to_slice(spec, &mut b));
            match (x, y) {
                (Caught::Ok(x), Caught::Ok(Ok(y))) => {
                    if !x.same_bits(&y) || a.pos != b.pos {
                        total.violation = Some(("replica-mismatch(to_slice)".into(), format!("{label}: sample() and sample_to_slice() differ on the same stream (call {k}): {} vs {}", x.show(), y.show())));
                        return Ok((total, tests));
                    }
                }
                _ => break,
            }
        }
    }
    // components: first, a middle one, the last (the stick-breaking remainder), and the largest alpha
    let mut comps: Vec<usize> = vec![0, len / 2, len - 1];
    let imax = alpha.iter().enumerate().max_by(|a, b| a.1.partial_cmp(b.1).unwrap()).unwrap().0;
    comps.push(imax);
    comps.sort_unstable();
    comps.dedup();
    let pairs: Vec<(usize, usize)> = if len >= 3 { vec![(0, len - 1), (len / 2, len - 1)] } else { vec![(0, 1)] };
    let mut pairs = pairs;
    pairs.retain(|(i, j)| i != j);
    pairs.dedup();
    // every scalar stream re-draws the vector stream from its own seed (streams are cheap,
    // memory is not): stream id = index of the scalar
    let mut scalars: Vec<(String, Box<dyn Fn(&[f64]) -> Option<f64>>, Cont, f64)> = Vec::new();
    for &i in &comps {
        let a = alpha[i];
        scalars.push((format!("x[{i}] ~ Beta({a:e}, {:e})", sum_a - a), Box::new(move |v: &[f64]| Some(v[i])), Cont::Beta { a, b: sum_a - a }, 2.0 * eps));
    }
    for &(i, j) in &pairs {
        scalars.push((
            format!("x[{i}]/(x[{i}]+x[{j}]) ~ Beta({:e}, {:e}) given x[{i}]+x[{j}] >= {tau:e}", alpha[i], alpha[j]),
            Box::new(move |v: &[f64]| {
                let s = v[i] + v[j];
                if s >= tau {
                    Some(v[i] / s)
                } else {
                    None
                }
            }),
            Cont::Beta { a: alpha[i], b: alpha[j] },
            2.0 * eps / tau,
        ));
    }
    let mut skipped = 0u64;
    for (si, (name, pick, law, res)) in scalars.iter().enumerate() {
        let sub_label = format!("{label}: {name}");
        // acceptance rate of the conditioning event, measured on a short probe stream:
        // a ratio whose pair is almost always below tau is not testable (reported)
        {
            let mut probe = SimRng::new(mix(&[seed, 77, si as u64]));
            let mut acc = 0;
            for _ in 0..400 {
                probe.budget = probe.pos + 1_000_000;
                if let Caught::Ok(o) = guarded(|| obj.sample(&mut probe)) {
                    if pick(&o.as_vec_f64().unwrap()).is_some() {
                        acc += 1;
                    }
                }
            }
            if acc < 100 {
                skipped += 1;
                continue;
            }
        }
        let mut draw = |rng: &mut SimRng, buf: &mut [f64]| -> Result<(), (String, String)> {
            let mut k = 0;
            let mut attempts = 0u64;
            while k < buf.len() {
                attempts += 1;
                if attempts > 64 * buf.len() as u64 {
                    return Err(("harness".into(), format!("{label}: conditioning event too rare")));
                }
                rng.budget = rng.pos + 1_000_000;
                match guarded(|| obj.sample(rng)) {
                    Caught::Ok(o) => {
                        if let Some((c, d)) = support::check(spec, &o) {
                            return Err((c.to_string(), format!("{label}: {d}")));
                        }
                        let v = o.as_vec_f64().unwrap();
                        if let Some(x) = pick(&v) {
                            buf[k] = x;
                            k += 1;
                        }
                    }
                    Caught::Panic { msg, loc } => return Err(("panic".into(), format!("{label}: {msg} @ {loc}"))),
                    Caught::Budget(_) => return Err(("word-budget".into(), format!("{label}: word budget exceeded"))),
                }
            }
            Ok(())
        };
        let bad = |x: f64| if x.is_nan() { Some(("nan".to_string(), format!("{sub_label}: NaN"))) } else { None };
        let cdf = |x: f64| law.cdf(x);
        let sf = |x: f64| law.sf(x);
        let q = |p: f64| law.quantile(p);
        let delta = |_e: f64| *res;
        // the vector stream is long: scale N down with the length
        let n_eff = (n / (len as u64).max(4) * 4).max(20_000);
        let o = scalar_law_test(&sub_label, &mut draw, &bad, false, &cdf, &sf, Some(&q), &delta, n_eff, 128, mix(&[seed, si as u64]), 1e-12, 1.0);
        tests += 1;
        total.samples += o.samples;
        total.words += o.words;
        total.screen_rejects += o.screen_rejects;
        total.info.edges += o.info.edges;
        total.info.edges_dropped_unresolvable += o.info.edges_dropped_unresolvable;
        total.info.worst_dkw_ratio = total.info.worst_dkw_ratio.max(o.info.worst_dkw_ratio);
        total.info.worst_cell_margin = total.info.worst_cell_margin.max(o.info.worst_cell_margin);
        total.info.g_ratio = total.info.g_ratio.max(o.info.g_ratio);
        total.digest ^= o.digest.rotate_left(si as u32);
        if o.violation.is_some() {
            total.vtags = o.vtags.clone();
            total.violation = o.violation;
            break;
        }
    }
    total.skipped_tests = skipped;
    Ok((total, tests))
}

// ---------------------------------------------------------------------------
// unit geometry (C12)
// ---------------------------------------------------------------------------

pub fn geometry_test(spec: &DistSpec, n: u64, seed: u64) -> Result<(LawOut, u64), String> {
    let obj = build_caught(spec)?;
    let obj: &dyn Obj = &*obj;
    let label = spec.label();
    let f32_ = spec.scalar == Scalar::F32;
    let eps = if f32_ { f32::EPSILON as f64 } else { f64::EPSILON };
    use std::f64::consts::PI;
    let ang = |y: f64, x: f64| y.atan2(x) / (2.0 * PI) + 0.5; // uniform on (0,1]
    // joint cell trick: t = (floor(32 u1) + u2)/32 is uniform on [0,1) iff u2 is uniform
    // within every u1-bin and the bins are equiprobable  (32 x 32 independence grid)
    let joint = |u1: f64, u2: f64| ((32.0 * u1.clamp(0.0, 1.0 - 1e-12)).floor() + u2.clamp(0.0, 1.0 - 1e-12)) / 32.0;
    type Pick = Box<dyn Fn(&[f64]) -> f64>;
    let scalars: Vec<(&str, Pick)> = match spec.family {
        Family::UnitCircle => vec![
            ("angle uniform", Box::new(move |v: &[f64]| ang(v[1], v[0]))),
            ("angle of (y,x) uniform (coordinate swap)", Box::new(move |v: &[f64]| ang(v[0], v[1]))),
        ],
        Family::UnitDisc => vec![
            ("angle uniform", Box::new(move |v: &[f64]| ang(v[1], v[0]))),
            ("r^2 uniform", Box::new(|v: &[f64]| v[0] * v[0] + v[1] * v[1])),
            ("(r^2, angle) independent on a 32x32 grid", Box::new(move |v: &[f64]| joint(v[0] * v[0] + v[1] * v[1], ang(v[1], v[0])))),
            ("x marginal (semicircle law)", Box::new(|v: &[f64]| {
                let x = v[0];
                0.5 + (x * (1.0 - x * x).max(0.0).sqrt() + x.clamp(-1.0, 1.0).asin()) / PI
            })),
        ],
        Family::UnitSphere => vec![
            ("z uniform", Box::new(|v: &[f64]| (v[2] + 1.0) / 2.0)),
            ("x uniform", Box::new(|v: &[f64]| (v[0] + 1.0) / 2.0)),
            ("y uniform", Box::new(|v: &[f64]| (v[1] + 1.0) / 2.0)),
            ("longitude uniform", Box::new(move |v: &[f64]| ang(v[1], v[0]))),
            ("(z, longitude) independent on a 32x32 grid", Box::new(move |v: &[f64]| joint((v[2] + 1.0) / 2.0, ang(v[1], v[0])))),
        ],
        Family::UnitBall => vec![
            ("r^3 uniform", Box::new(|v: &[f64]| (v[0] * v[0] + v[1] * v[1] + v[2] * v[2]).powf(1.5))),
            ("z/r uniform", Box::new(|v: &[f64]| {
                let r = (v[0] * v[0] + v[1] * v[1] + v[2] * v[2]).sqrt();
                if r > 0.0 { (v[2] / r + 1.0) / 2.0 } else { 0.5 }
            })),
            ("longitude uniform", Box::new(move |v: &[f64]| ang(v[1], v[0]))),
            ("(z/r, longitude) independent on a 32x32 grid", Box::new(move |v: &[f64]| {
                let r = (v[0] * v[0] + v[1] * v[1] + v[2] * v[2]).sqrt();
                joint(if r > 0.0 { (v[2] / r + 1.0) / 2.0 } else { 0.5 }, ang(v[1], v[0]))
            })),
            ("(r^3, z/r) independent on a 32x32 grid", Box::new(move |v: &[f64]| {
                let r2 = v[0] * v[0] + v[1] * v[1] + v[2] * v[2];
                let r = r2.sqrt();
                joint(r2.powf(1.5), if r > 0.0 { (v[2] / r + 1.0) / 2.0 } else { 0.5 })
            })),
        ],
        _ => return Err("not a geometry family".into()),
    };
    let mut total = LawOut::default();
    let mut tests = 0u64;
    // ---- stuck-source bursts (fault kind F9) ----------------------------------------
    // The norm / NaN clause holds for EVERY stream: K consecutive draws return the same
    // boundary word (a stalled entropy source), then the seeded stream resumes.  A rejection
    // loop may legitimately spin through the burst; what it returns afterwards must still be
    // on the circle / sphere or inside the disc / ball.
    {
        let lattice = crate::simrng::boundary_lattice();
        let mut bursts = 0u64;
        for (li, (kind, inj)) in lattice.iter().enumerate() {
            for &k in &[2u64, 3, 6, 12, 33, 97, 300, 1000, 3100, 9100] {
                for start in 0..3u64 {
                    let faults: Vec<crate::simrng::Fault> = (start..start + k).map(|pos| crate::simrng::Fault { pos, inject: *inj }).collect();
                    let mut rng = SimRng::with_faults(mix(&[seed, 0xB0257, li as u64, k, start]), faults);
                    rng.budget = 100_000;
                    bursts += 1;
                    if bursts & 0xff == 0 {
                        mark_call(bursts);
                    }
                    let verdict = match guarded(|| obj.sample(&mut rng)) {
                        Caught::Ok(o) => support::check(spec, &o).map(|(c, d)| (c.to_string(), d)),
                        Caught::Panic { msg, loc } => Some(("panic".to_string(), format!("{msg} @ {loc}"))),
                        Caught::Budget(_) => Some(("word-budget".to_string(), "word budget exceeded".to_string())),
                    };
                    total.words += rng.pos;
                    if let Some((c, d)) = verdict {
                        total.samples += bursts;
                        total.violation = Some((c, format!("{label}: after a burst of {k} identical words ({kind}) at positions {start}..{}: {d}", start + k)));
                        return Ok((total, tests));
                    }
                }
            }
        }
        total.samples += bursts;
        total.bursts = bursts;
    }
    // ---- candidate lattice (fault kind L2): the acceptance test itself ------------------
    // All words of ONE candidate are injected so that the candidate lies at a chosen radius
    // and direction: just outside the unit circle / sphere it must be rejected (the call goes
    // on and still returns a valid point), well inside -- including on the axes -- it must be
    // accepted at once (exactly one candidate's words are consumed).  A fast-accept region
    // with a rounded constant, or an over-wide exclusion around an axis, is a two-word
    // event that neither single-word faults nor identical-word bursts reach.
    {
        let dim = if matches!(spec.family, Family::UnitBall) { 3 } else { 2 };
        // Uniform(-1, 1): x = 2 m 2^-52 - 1 with m the top 52 bits (f32: top 23 bits)
        let word_of = |x: f64| -> u64 {
            let m = (((x + 1.0) * 0.5) * (1u64 << 52) as f64).round().clamp(0.0, ((1u64 << 52) - 1) as f64) as u64;
            m << 12
        };
        let res_x = if f32_ { 2.0_f64.powi(-22) } else { 2.0_f64.powi(-51) };
        let mut lattice_runs = 0u64;
        let radii_out = [1.0 + 1e-3, 1.0 + 1e-5, 1.0 + 3e-6, 1.0 + 1e-6];
        let radii_in = [1.0 - 1e-3, 1.0 - 1e-5, 0.75, 0.5, 1e-2, 1e-4];
        let n_dir = 720;
        for di in 0..n_dir {
            // directions: a regular grid that contains the axes and the diagonals exactly
            let th = 2.0 * PI * di as f64 / n_dir as f64;
            let (c, s_) = (th.cos(), th.sin());
            let dirs: Vec<[f64; 3]> = if dim == 2 {
                vec![[c, s_, 0.0]]
            } else {
                vec![[c, s_, 0.0], [c * 0.6, s_ * 0.6, 0.8], [0.0, c, s_], [c * 0.8, s_ * 0.8, -0.6]]
            };
            for d in dirs {
                for (outside, r) in radii_out.iter().map(|r| (true, *r)).chain(radii_in.iter().map(|r| (false, *r))) {
                    // snap tiny components to exactly 0 (the axes)
                    let xs: Vec<f64> = (0..dim).map(|i| if (d[i] * r).abs() < 1e-12 { 0.0 } else { d[i] * r }).collect();
                    if xs.iter().any(|x| x.abs() >= 1.0) {
                        continue; // not a candidate the cube can produce
                    }
                    // what the sampler will see after quantisation
                    let q: Vec<f64> = xs.iter().map(|x| ((word_of(*x) >> 12) as f64) * 2.0_f64.powi(-51) - 1.0).collect();
                    let q: Vec<f64> = if f32_ { q.iter().map(|x| (((x + 1.0) * 0.5 * 8388608.0).floor() / 8388608.0) * 2.0 - 1.0).collect() } else { q };
                    let r2: f64 = q.iter().map(|x| x * x).sum();
                    // only candidates whose side of the boundary survives quantisation
                    if outside && r2 < 1.0 + 8.0 * res_x || !outside && r2 > 1.0 - 8.0 * res_x {
                        continue;
                    }
                    if !outside && r2 == 0.0 {
                        continue; // the origin has no direction (UnitCircle rejects it)
                    }
                    let faults: Vec<crate::simrng::Fault> = (0..dim as u64).map(|pos| crate::simrng::Fault { pos, inject: Inject::Word(word_of(xs[pos as usize])) }).collect();
                    let mut rng = SimRng::with_faults(mix(&[seed, 0x1A771CE, di as u64]), faults);
                    rng.budget = 100_000;
                    lattice_runs += 1;
                    let verdict = match guarded(|| obj.sample(&mut rng)) {
                        Caught::Ok(o) => match support::check(spec, &o) {
                            Some((cl, dt)) => Some((cl.to_string(), dt)),
                            None => {
                                if !outside && rng.pos != dim as u64 {
                                    Some(("law(candidate-lattice)".to_string(), format!("a candidate inside the unit ball (r^2 = {r2:.9}) was not accepted: the call consumed {} words instead of {dim}", rng.pos)))
                                } else if outside && rng.pos == dim as u64 {
                                    Some(("law(candidate-lattice)".to_string(), format!("a candidate outside the unit ball (r^2 = {r2:.9}) was accepted (only {dim} words consumed)")))
                                } else {
                                    None
                                }
                            }
                        },
                        Caught::Panic { msg, loc } => Some(("panic".to_string(), format!("{msg} @ {loc}"))),
                        Caught::Budget(_) => Some(("word-budget".to_string(), "word budget exceeded".to_string())),
                    };
                    total.words += rng.pos;
                    if let Some((cl, dt)) = verdict {
                        total.samples += lattice_runs;
                        total.violation = Some((cl, format!("{label}: candidate {q:?} injected as the first {dim} words: {dt}")));
                        return Ok((total, tests));
                    }
                }
            }
        }
        total.samples += lattice_runs;
        total.lattice_runs = lattice_runs;
    }
    for (si, (name, pick)) in scalars.iter().enumerate() {
        let sub_label = format!("{label}: {name}");
        let mut draw = |rng: &mut SimRng, buf: &mut [f64]| -> Result<(), (String, String)> {
            for b in buf.iter_mut() {
                rng.budget = rng.pos + 100_000;
                match guarded(|| obj.sample(rng)) {
                    Caught::Ok(o) => {
                        if let Some((c, d)) = support::check(spec, &o) {
                            return Err((c.to_string(), format!("{label}: {d}")));
                        }
                        *b = pick(&o.as_vec_f64().unwrap());
                    }
                    Caught::Panic { msg, loc } => return Err(("panic".into(), format!("{label}: {msg} @ {loc}"))),
                    Caught::Budget(_) => return Err(("word-budget".into(), format!("{label}: word budget exceeded"))),
                }
            }
            Ok(())
        };
        let bad = |x: f64| if x.is_nan() { Some(("nan".to_string(), format!("{sub_label}: NaN"))) } else { None };
        let cdf = |x: f64| x.clamp(0.0, 1.0);
        let sf = |x: f64| 1.0 - x.clamp(0.0, 1.0);
        // the derived scalars are smooth functions of coordinates with ~eps error; the
        // angle near the branch cut and the grid trick need a slightly wider resolution
        let delta = |_e: f64| 64.0 * eps;
        // fixed equiprobable grid (1024 cells) instead of pilot edges for the grid tests
        let q = |p: f64| p;
        let o = scalar_law_test(&sub_label, &mut draw, &bad, false, &cdf, &sf, Some(&q), &delta, n, if name.contains("grid") { 1024 } else { 256 }, mix(&[seed, si as u64]), 1e-12, 1.0);
        tests += 1;
        total.samples += o.samples;
        total.words += o.words;
        total.screen_rejects += o.screen_rejects;
        total.info.edges += o.info.edges;
        total.info.edges_dropped_unresolvable += o.info.edges_dropped_unresolvable;
        total.info.worst_dkw_ratio = total.info.worst_dkw_ratio.max(o.info.worst_dkw_ratio);
        total.info.worst_cell_margin = total.info.worst_cell_margin.max(o.info.worst_cell_margin);
        total.info.g_ratio = total.info.g_ratio.max(o.info.g_ratio);
        total.digest ^= o.digest.rotate_left(si as u32);
        if o.violation.is_some() {
            total.vtags = o.vtags.clone();
            total.violation = o.violation;
            break;
        }
    }
    Ok((total, tests))
}

// ---------------------------------------------------------------------------
// configurations
// ---------------------------------------------------------------------------

#[derive(Clone, Debug)]
pub enum Job {
    Cont(DistSpec, u64),
    Disc(DistSpec, u64),
    /// a batch of small discrete configurations for the exact lattice
    LatticeBatch(Vec<DistSpec>, u64),
    Dirichlet(DistSpec, u64),
    Geometry(DistSpec, u64),
}

fn small_hyper_all() -> Vec<DistSpec> {
    let mut v = Vec::new();
    for total in 1..=40u64 {
        for feature in 0..=total {
            for draws in 0..=total {
                v.push(DistSpec::i(Family::Hypergeometric, &[total, feature, draws], &[]));
            }
        }
    }
    v
}
fn small_binomial_all() -> Vec<DistSpec> {
    let mut v = Vec::new();
    let ps: Vec<f64> = (0..=40).map(|k| k as f64 / 40.0).collect();
    for n in 1..=30u64 {
        for &p in &ps {
            v.push(DistSpec::i(Family::Binomial, &[n], &[p]));
        }
    }
    v
}

pub fn jobs(prop: &str, ctx: &Ctx) -> Vec<Job> {
    let thorough = ctx.tier == Tier::Thorough;
    let mut v = Vec::new();
    let mut r = SimRng::new(mix(&[ctx.seed, 0xC01, prop.as_bytes()[2] as u64]));
    match prop {
        "C01" => {
            let (n_grid, n_rand, r_per) = if thorough { (100_000_000u64, 10_000_000u64, 32) } else { (8_000_000, 500_000, 4) };
            for s in [Scalar::F32, Scalar::F64] {
                for fam in env::CONT_FAMILIES {
                    for spec in env::cont_grid(fam, s) {
                        v.push(Job::Cont(spec, n_grid));
                    }
                    if !matches!(fam, Family::StandardNormal | Family::Exp1) {
                        for _ in 0..r_per {
                            v.push(Job::Cont(env::cont_random(fam, s, &mut r), n_rand));
                        }
                    }
                    for spec in env::special_cross(fam, s) {
                        if build_caught(&spec).is_ok() {
                            v.push(Job::Cont(spec, n_rand));
                        }
                    }
                }
                v.push(Job::Cont(DistSpec::f(Family::NormalMeanCv, s, &[2.0, 0.5]), n_rand));
            }
        }
        "C02" => {
            let (n_grid, n_rand, r_per) = if thorough { (50_000_000u64, 5_000_000u64, 32) } else { (10_000_000, 500_000, 4) };
            for s in [Scalar::F32, Scalar::F64] {
                for fam in env::DISC_FLOAT_FAMILIES {
                    for spec in env::disc_grid(fam, s) {
                        v.push(Job::Disc(spec, n_grid));
                    }
                    for _ in 0..r_per {
                        v.push(Job::Disc(env::disc_random(fam, s, &mut r), n_rand));
                    }
                    for spec in env::special_cross(fam, s) {
                        if build_caught(&spec).is_ok() {
                            v.push(Job::Disc(spec, n_rand));
                        }
                    }
                }
            }
            for fam in env::DISC_INT_FAMILIES {
                for spec in env::disc_grid(fam, Scalar::None) {
                    v.push(Job::Disc(spec, n_grid));
                }
                if fam != Family::StandardGeometric {
                    for _ in 0..r_per * 2 {
                        v.push(Job::Disc(env::disc_random(fam, Scalar::None, &mut r), n_rand));
                    }
                }
            }
            // H2PE with mode >= 100 and K far from N-K: the squeeze of step 4.2 uses n1 and
            // n2 separately, which the near-symmetric grid members barely exercise (added
            // after seeded change C02-r11k02m1 was reported at a margin of only 3.35)
            for t in [[10_000u64, 3000, 1000], [10_000, 7000, 1000], [5000, 600, 2000], [100_000, 20_000, 1500]] {
                v.push(Job::Disc(DistSpec::i(Family::Hypergeometric, &t, &[]), n_grid));
            }
            // exhaustive small sets of the statement, through the exact lattice
            let m = if thorough { 1 << 16 } else { 1 << 14 };
            let mut small = small_hyper_all();
            small.extend(small_binomial_all());
            if !thorough {
                // seeded 1/16 subset
                small.retain(|_| env::below(&mut r, 16) == 0);
            }
            // plus the BINV / HIN members of the grids with a finer lattice
            for chunk in small.chunks(256) {
                v.push(Job::LatticeBatch(chunk.to_vec(), m));
            }
            let mut fine: Vec<DistSpec> = env::disc_grid(Family::Binomial, Scalar::None);
            fine.extend(env::disc_grid(Family::Hypergeometric, Scalar::None));
            v.push(Job::LatticeBatch(fine, if thorough { 1 << 20 } else { 1 << 16 }));
        }
        "C11" => {
            let (n, r_per) = if thorough { (20_000_000u64, 24) } else { (1_000_000, 4) };
            for s in [Scalar::F32, Scalar::F64] {
                for spec in env::dirichlet_grid(s) {
                    v.push(Job::Dirichlet(spec, n));
                }
                for _ in 0..r_per {
                    v.push(Job::Dirichlet(env::dirichlet_random(s, &mut r), n));
                }
            }
        }
        "C12" => {
            let n = if thorough { 100_000_000u64 } else { 4_000_000 };
            for spec in env::geom_specs() {
                v.push(Job::Geometry(spec, n));
            }
        }
        _ => {}
    }
    v
}

fn sig_of(spec: &DistSpec, class: &str) -> BTreeMap<String, String> {
    let mut sig = BTreeMap::new();
    sig.insert("family".into(), format!("{:?}", spec.family));
    sig.insert(
        "scalar".into(),
        match spec.scalar {
            Scalar::F32 => "f32".into(),
            Scalar::F64 => "f64".into(),
            Scalar::None => "none".into(),
        },
    );
    sig.insert("class".into(), class.to_string());
    let reg = env::regime_tags(spec);
    if !reg.is_empty() {
        sig.insert("regime".into(), reg.join(","));
    }
    sig
}

fn restart_stage(res: &mut CaseResult, spec: &DistSpec, ctx: &Ctx, seed: u64, kind: &str, n: u64) {
    let calls = if ctx.tier == Tier::Thorough { 200_000 } else { 20_000 };
    match restart_equivalence(spec, calls, seed) {
        Ok((c, rej, bad)) => {
            if c > 0 {
                res.stat_sum("restart_equivalence_calls", c as f64);
                res.stat_sum("restart_equivalence_calls_with_a_rejection", rej as f64);
                res.evaluations += c;
            }
            if let Some((class, detail)) = bad {
                let case = LawCase { kind: kind.into(), spec: spec.clone(), n, seed, m: 0 };
                res.violations.push(Violation { sig: sig_of(spec, &class), class, detail, case: serde_json::to_value(&case).unwrap() });
            }
        }
        Err(e) => res.notes.push(format!("restart equivalence skipped: {e}")),
    }
}

fn sig_with_tags(spec: &DistSpec, class: &str, tags: &[String]) -> BTreeMap<String, String> {
    let mut sig = sig_of(spec, class);
    if !tags.is_empty() {
        sig.insert("tags".into(), tags.join(","));
    }
    sig
}

fn absorb(res: &mut CaseResult, o: &LawOut) {
    res.evaluations += o.samples;
    res.sim_words += o.words;
    res.stat_sum("law_tests", 1.0);
    res.stat_sum("screen_rejections_not_confirmed_or_confirmed", o.screen_rejects as f64);
    res.stat_sum("ratio_tests_skipped_conditioning_event_rare", o.skipped_tests as f64);
    res.stat_sum("edges", o.info.edges as f64);
    res.stat_sum("edges_dropped_unresolvable", o.info.edges_dropped_unresolvable as f64);
    res.stat_max("worst_dkw_ratio", o.info.worst_dkw_ratio);
    res.stat_max("worst_cell_margin", o.info.worst_cell_margin);
    res.stat_max("worst_g_over_threshold", o.info.g_ratio);
    if o.violation.is_none() {
        res.stat_max("worst_dkw_ratio_among_passing", o.info.worst_dkw_ratio);
        res.stat_max("worst_cell_margin_among_passing", o.info.worst_cell_margin);
        res.stat_max("worst_g_over_threshold_among_passing", o.info.g_ratio);
    }
}

impl Engine for LawEngine {
    fn property(&self) -> &'static str {
        self.prop
    }
    fn level(&self) -> &'static str {
        "exploration"
    }
    fn rule(&self) -> String {
        match self.prop {
            "C01" => "one case per configuration (20 continuous families x {f32,f64} x the grid of E straddling every switch + seeded random interior points); per configuration: pilot stream fixes ~256 order-statistic edges + oracle tail quantiles at 1e-6..1e-2, main stream of N samples (2e6 quick / 1e8 thorough for grid points) is histogrammed, resolution-aware DKW and per-cell Chernoff tests at 1e-7, confirmation on an independent stream (4N) at 1e-9; NaN and support checked on every sample. evaluations = samples drawn; distinct_nontrivial = configurations whose law was tested with at least half of the edges resolvable.".into(),
            "C02" => "as C01 for the discrete families with exact pmf/cdf oracles (every atom its own cell when the 1e-7..1-1e-7 range spans <= 3000 integers); plus exact mid-cell lattice enumeration of the single uniform of the inverse-transform samplers BINV and HIN (fault kind L): exhaustive sets of the statement (all (N,K,n) with N<=40, all n<=30 x 41 p-values; quick: seeded 1/16 subset) at M=2^14/2^16 and the grid members at M=2^16/2^20: counts within 1+M*delta of M*pmf and output monotone in the word. evaluations = samples + lattice points; distinct_nontrivial = configurations tested.".into(),
            "C11" => "alpha vectors of E (both generation methods, straddling 0.1, lengths 2..64) x {f32,f64}: per-sample simplex invariants on every sample; marginals Beta(a_i, sum-a_i) of up to 4 components (first, middle, last, largest) with absolute resolution 2 eps, and conditioned ratios x_i/(x_i+x_j) ~ Beta(a_i,a_j) given x_i+x_j >= tau (valid by neutrality) for 2 pairs; sample_to_slice == sample on cloned streams. evaluations = vector samples; distinct_nontrivial = (configuration, scalar test) pairs.".into(),
            _ => "UnitCircle/Disc/Sphere/Ball x {f32,f64}: norm invariant on every sample; angle, r^2, z, longitude, r^3, z/r uniform; independence on 32x32 grids via the joint-cell scalar t=(floor(32 u1)+u2)/32 with 1024 equiprobable cells; coordinate-swap symmetry. evaluations = point samples; distinct_nontrivial = (sampler, scalar test) pairs.".into(),
        }
    }
    fn assumptions(&self) -> Vec<String> {
        vec![
            "ideal random bits = xoshiro256++ words".into(),
            "reference laws: crate `vorac` (validated against 40-digit mpmath tables at start-up: selftest oracle)".into(),
            "statistical decision: detects Kolmogorov shifts above ~3.8/sqrt(N) and cell errors above the Chernoff bound; distortions below that floor are not seen".into(),
            "resolution rule: an edge is compared against [F(e-2ulp), F(e+2ulp)] of the output type; unresolvable edges are dropped and counted".into(),
        ]
    }
    fn num_cases(&self, ctx: &Ctx) -> usize {
        jobs(self.prop, ctx).len()
    }
    fn preflight(&self) -> Result<String, String> {
        if self.prop == "C12" {
            return Ok(String::new()); // uniform reference only
        }
        let s = vorac::selftest()?;
        Ok(format!("oracle self-test: {} reference records (40-digit tables) reproduced, {} with the loose tolerance", s.records, s.loose_records))
    }
    fn describe(&self, ctx: &Ctx, index: usize) -> String {
        match jobs(self.prop, ctx).get(index) {
            Some(Job::Cont(s, n)) | Some(Job::Disc(s, n)) | Some(Job::Dirichlet(s, n)) | Some(Job::Geometry(s, n)) => format!("{} N={n}", s.label()),
            Some(Job::LatticeBatch(v, m)) => format!("lattice batch of {} starting at {} M={m}", v.len(), v[0].label()),
            None => "none".into(),
        }
    }
    fn hang_case(&self, ctx: &Ctx, index: usize, _call: u64) -> Option<(BTreeMap<String, String>, Value)> {
        let seed = mix(&[ctx.seed, 0x1A4, index as u64]);
        let (kind, spec, n, m) = match jobs(self.prop, ctx).get(index)? {
            Job::Cont(s, n) => ("law-cont", s.clone(), *n, 0),
            Job::Disc(s, n) => ("law-disc", s.clone(), *n, 0),
            Job::Dirichlet(s, n) => ("dirichlet", s.clone(), *n, 0),
            Job::Geometry(s, n) => ("geometry", s.clone(), *n, 0),
            Job::LatticeBatch(v, m) => ("lattice", v[0].clone(), 0, *m),
        };
        let case = LawCase { kind: kind.into(), spec: spec.clone(), n, seed, m };
        Some((sig_of(&spec, "hang"), serde_json::to_value(&case).ok()?))
    }
    fn run_case(&self, ctx: &Ctx, index: usize) -> CaseResult {
        let js = jobs(self.prop, ctx);
        let job = &js[index];
        let mut res = CaseResult::new(index);
        let seed = mix(&[ctx.seed, 0x1A4, index as u64]);
        let n_central = if ctx.tier == Tier::Thorough { 1024 } else { 256 };
        let push_violation = |res: &mut CaseResult, spec: &DistSpec, kind: &str, n: u64, m: u64, class: String, detail: String, tags: &[String]| {
            let case = LawCase { kind: kind.into(), spec: spec.clone(), n, seed, m };
            res.violations.push(Violation { sig: sig_with_tags(spec, &class, tags), class, detail, case: serde_json::to_value(&case).unwrap() });
        };
        match job {
            Job::Cont(spec, n) => match cont_test(spec, *n, seed, n_central) {
                Err(e) => res.notes.push(format!("skipped: {e}")),
                Ok(o) => {
                    restart_stage(&mut res, spec, ctx, seed, "law-cont", *n);
                    absorb(&mut res, &o);
                    if o.info.edges_dropped_unresolvable * 2 <= o.info.edges {
                        res.keys.push(hash_key(&[&spec.label()]));
                    } else {
                        res.notes.push("point-mass-like at the output resolution: most edges unresolvable".to_string());
                    }
                    res.digest = o.digest;
                    if index % 40 == 0 {
                        res.samples.push(json!({"configuration": spec.label(), "N": n, "edges": o.info.edges, "dropped": o.info.edges_dropped_unresolvable, "worst_dkw_ratio": o.info.worst_dkw_ratio, "worst_cell_margin": o.info.worst_cell_margin, "words": o.words}));
                    }
                    let vt = o.vtags.clone();
                    if let Some((c, d)) = o.violation {
                        push_violation(&mut res, spec, "law-cont", *n, 0, c, d, &vt);
                    }
                }
            },
            Job::Disc(spec, n) => match disc_test(spec, *n, seed) {
                Err(e) => res.notes.push(format!("skipped: {e}")),
                Ok(o) => {
                    restart_stage(&mut res, spec, ctx, seed, "law-disc", *n);
                    absorb(&mut res, &o);
                    res.keys.push(hash_key(&[&spec.label()]));
                    res.digest = o.digest;
                    if index % 30 == 0 {
                        res.samples.push(json!({"configuration": spec.label(), "N": n, "edges": o.info.edges, "worst_dkw_ratio": o.info.worst_dkw_ratio, "worst_cell_margin": o.info.worst_cell_margin}));
                    }
                    let vt = o.vtags.clone();
                    if let Some((c, d)) = o.violation {
                        push_violation(&mut res, spec, "law-disc", *n, 0, c, d, &vt);
                    }
                }
            },
            Job::LatticeBatch(specs, m) => {
                let mut dg = Digest::new();
                let mut seen = std::collections::BTreeSet::new();
                for spec in specs {
                    match lattice_test(spec, *m, seed) {
                        Err(e) => res.notes.push(format!("skipped {}: {e}", spec.label())),
                        Ok(None) => {
                            res.stat_sum("lattice_not_single_draw(statistical_fallback)", 1.0);
                            // fall back to the statistical path (small N: these are tiny laws)
                            if let Ok(o) = disc_test(spec, 200_000, seed) {
                                absorb(&mut res, &o);
                                res.keys.push(hash_key(&[&spec.label(), "stat"]));
                                dg.add(o.digest);
                                let vt = o.vtags.clone();
                    if let Some((c, d)) = o.violation {
                                    if seen.insert(c.clone()) {
                                        push_violation(&mut res, spec, "law-disc", 200_000, 0, c, d, &vt);
                                    }
                                }
                            }
                        }
                        Ok(Some(o)) => {
                            res.evaluations += o.samples;
                            res.sim_words += o.words;
                            res.inj("L-lattice", o.samples);
                            res.fired("L-lattice", o.samples);
                            res.stat_sum("lattice_configurations", 1.0);
                            res.stat_max("lattice_worst_dev_over_tol", o.info.worst_cell_margin);
                            res.keys.push(hash_key(&[&spec.label(), "lattice"]));
                            dg.add(o.digest);
                            let vt = o.vtags.clone();
                    if let Some((c, d)) = o.violation {
                                if seen.insert(c.clone()) {
                                    push_violation(&mut res, spec, "lattice", 0, *m, c, d, &vt);
                                }
                            }
                        }
                    }
                }
                res.digest = dg.0;
                res.samples.push(json!({"lattice_batch_first": specs[0].label(), "configurations": specs.len(), "M": m}));
            }
            Job::Dirichlet(spec, n) => match dirichlet_test(spec, *n, seed) {
                Err(e) => res.notes.push(format!("skipped: {e}")),
                Ok((o, tests)) => {
                    absorb(&mut res, &o);
                    res.stat_sum("law_tests", tests as f64 - 1.0);
                    for t in 0..tests {
                        res.keys.push(hash_key(&[&spec.label(), &t.to_string()]));
                    }
                    res.digest = o.digest;
                    if index % 8 == 0 {
                        res.samples.push(json!({"alpha": spec.label(), "N": n, "scalar_tests": tests, "worst_dkw_ratio": o.info.worst_dkw_ratio, "worst_cell_margin": o.info.worst_cell_margin}));
                    }
                    let vt = o.vtags.clone();
                    if let Some((c, d)) = o.violation {
                        push_violation(&mut res, spec, "dirichlet", *n, 0, c, d, &vt);
                    }
                }
            },
            Job::Geometry(spec, n) => match geometry_test(spec, *n, seed) {
                Err(e) => res.notes.push(format!("skipped: {e}")),
                Ok((o, tests)) => {
                    restart_stage(&mut res, spec, ctx, seed, "geometry", *n);
                    absorb(&mut res, &o);
                    res.stat_sum("law_tests", tests as f64 - 1.0);
                    res.stat_max(&format!("words_per_sample:{}", spec.label()), o.words as f64 / o.samples.max(1) as f64);
                    for t in 0..tests {
                        res.keys.push(hash_key(&[&spec.label(), &t.to_string()]));
                    }
                    res.digest = o.digest;
                    res.inj("F9-stuck-source-burst", o.bursts);
                    res.fired("F9-stuck-source-burst", o.bursts);
                    res.inj("L2-candidate-lattice", o.lattice_runs);
                    res.fired("L2-candidate-lattice", o.lattice_runs);
                    res.samples.push(json!({"sampler": spec.label(), "N": n, "scalar_tests": tests, "worst_dkw_ratio": o.info.worst_dkw_ratio, "worst_cell_margin": o.info.worst_cell_margin}));
                    let vt = o.vtags.clone();
                    if let Some((c, d)) = o.violation {
                        push_violation(&mut res, spec, "geometry", *n, 0, c, d, &vt);
                    }
                }
            },
        }
        res
    }
    fn replay(&self, ctx: &Ctx, case: &Value) -> Result<Vec<Violation>, String> {
        let c: LawCase = serde_json::from_value(case.clone()).map_err(|e| format!("bad replay case: {e}"))?;
        let n_central = if ctx.tier == Tier::Thorough { 1024 } else { 256 };
        println!("replay: {} {} N={} M={} seed={}", c.kind, c.spec.label(), c.n, c.m, c.seed);
        if matches!(c.kind.as_str(), "law-cont" | "law-disc" | "geometry") {
            let calls = if ctx.tier == Tier::Thorough { 200_000 } else { 20_000 };
            if let (_, rej, Some((class, detail))) = restart_equivalence(&c.spec, calls, c.seed)? {
                println!("replay: restart equivalence ({rej} rejections examined): outcome class={class}: {detail}");
                return Ok(vec![Violation { sig: sig_of(&c.spec, &class), class, detail, case: case.clone() }]);
            }
        }
        let o = match c.kind.as_str() {
            "law-cont" => cont_test(&c.spec, c.n, c.seed, n_central)?,
            "law-disc" => disc_test(&c.spec, c.n, c.seed)?,
            "lattice" => lattice_test(&c.spec, c.m, c.seed)?.ok_or("not single-draw")?,
            "dirichlet" => dirichlet_test(&c.spec, c.n, c.seed)?.0,
            "geometry" => geometry_test(&c.spec, c.n, c.seed)?.0,
            k => return Err(format!("unknown kind {k}")),
        };
        println!("replay: worst dkw ratio {:.3}, worst cell margin {:.3}", o.info.worst_dkw_ratio, o.info.worst_cell_margin);
        Ok(match o.violation {
            None => {
                println!("replay: outcome ok");
                vec![]
            }
            Some((class, detail)) => {
                println!("replay: outcome class={class}: {detail}");
                vec![Violation { sig: sig_with_tags(&c.spec, &class, &o.vtags), class, detail, case: case.clone() }]
            }
        })
    }
}
