pub mod fault;

use crate::runner::Engine;

pub fn engine_for(property: &str) -> Option<Box<dyn Engine>> {
    match property {
        "C03" => Some(Box::new(fault::FaultEngine::new("C03"))),
        "C05" => Some(Box::new(fault::FaultEngine::new("C05"))),
        _ => None,
    }
}
