pub mod alias;
pub mod fault;
pub mod tree;
pub mod wt;

use crate::runner::Engine;

pub fn engine_for(property: &str) -> Option<Box<dyn Engine>> {
    match property {
        "C03" => Some(Box::new(fault::FaultEngine::new("C03"))),
        "C05" => Some(Box::new(fault::FaultEngine::new("C05"))),
        "C08" => Some(Box::new(alias::AliasEngine)),
        "C09" => Some(Box::new(tree::TreeEngine::new("C09"))),
        "C10" => Some(Box::new(tree::TreeEngine::new("C10"))),
        _ => None,
    }
}
