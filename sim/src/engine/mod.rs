pub mod affine;
pub mod alias;
pub mod exact32;
pub mod fault;
pub mod hist;
pub mod law;
pub mod tree;
pub mod wt;
pub mod zig;

use crate::runner::Engine;

pub const ALL_PROPS: &[&str] = &["C01", "C02", "C03", "C05", "C06", "C07", "C08", "C09", "C10", "C11", "C12", "C13", "C14", "C15"];

pub fn engine_for(property: &str) -> Option<Box<dyn Engine>> {
    match property {
        "C01" => Some(Box::new(law::LawEngine::new("C01"))),
        "C02" => Some(Box::new(law::LawEngine::new("C02"))),
        "C11" => Some(Box::new(law::LawEngine::new("C11"))),
        "C12" => Some(Box::new(law::LawEngine::new("C12"))),
        "C03" => Some(Box::new(fault::FaultEngine::new("C03"))),
        "C05" => Some(Box::new(fault::FaultEngine::new("C05"))),
        "C06" => Some(Box::new(zig::ZigEngine)),
        "C07" => Some(Box::new(affine::AffineEngine)),
        "C08" => Some(Box::new(alias::AliasEngine)),
        "C09" => Some(Box::new(tree::TreeEngine::new("C09"))),
        "C10" => Some(Box::new(tree::TreeEngine::new("C10"))),
        "C13" => Some(Box::new(exact32::Exact32Engine)),
        "C14" => Some(Box::new(hist::HistEngine::purity())),
        "C15" => Some(Box::new(hist::HistEngine::serde())),
        _ => None,
    }
}
