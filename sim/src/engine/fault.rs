//! C03 / C05 — single-word fault injection at every draw position.
//!
//! One case = one configuration (distribution type, scalar type, parameters).  Inside a
//! case: (A) the boundary lattice at every position 0..P for S base seeds, (B) the full
//! 2^24 sweep of the top 24 bits for f32 configurations, (C) random streams (mean / max
//! word consumption and support on typical streams).  Every `sample()` call runs under a
//! word budget (10^5) and the supervisor's CPU watchdog.
//!
//! C03 judges: panic, NaN, non-finite, out-of-support, zero-weight index, worker crash.
//! C05 judges: word budget exceeded, hang, mean words per call above the bound.

use crate::envelope as env;
use crate::registry::{build_caught, DistSpec, Family, Obj, Out, Scalar};
use crate::runner::{guarded, hash_key, mark_call, CaseResult, Caught, Ctx, Digest, Engine, Tier, Violation};
use crate::simrng::{boundary_lattice, mix, Fault, Inject, SimRng};
use crate::support;
use serde::{Deserialize, Serialize};
use serde_json::{json, Value};
use std::collections::{BTreeMap, BTreeSet};

pub const PROBE_NAMES: [(u8, &str); 77] = [
    (1, "zig.norm.fast"), (2, "zig.norm.tail"), (3, "zig.norm.wedge_accept"), (4, "zig.norm.wedge_reject"),
    (5, "zig.exp.fast"), (6, "zig.exp.tail"), (7, "zig.exp.wedge_accept"), (8, "zig.exp.wedge_reject"),
    (9, "normal.tail_loop"), (10, "gamma.v<=0_retry"), (11, "gamma.accept"), (13, "gamma.reject"), (14, "gamma.small_shape"),
    (15, "beta.BB.step2"), (16, "beta.BB.step3"), (17, "beta.BB.step4"), (18, "beta.BB.reject"),
    (19, "beta.BC.step2_reject"), (20, "beta.BC.step3_accept"), (21, "beta.BC.step4_reject"), (22, "beta.BC.step5_accept"), (23, "beta.BC.step5_reject"), (24, "beta.w_inf_guard"),
    (25, "binv.restart"), (26, "btpe.region1"), (27, "btpe.region2_reject"), (28, "btpe.region2"), (29, "btpe.region3_reject"), (30, "btpe.region3"), (31, "btpe.region4_reject"), (32, "btpe.region4"),
    (33, "btpe.step5.1"), (34, "btpe.squeeze_accept"), (35, "btpe.squeeze_reject"), (36, "btpe.step5.3_reject"), (37, "btpe.step5.3_accept"),
    (38, "poisson.stepI"), (39, "poisson.stepS"), (40, "poisson.stepQ"), (41, "poisson.stepE"), (42, "poisson.stepH_accept"), (44, "poisson.f.k<10"), (45, "poisson.f.series"), (46, "poisson.f.log"),
    (47, "hin.step"), (48, "h2pe.region1"), (49, "h2pe.region2_accept"), (50, "h2pe.region2"), (51, "h2pe.region3_accept"), (52, "h2pe.region3"),
    (53, "h2pe.step4.1"), (54, "h2pe.step4.1_accept"), (55, "h2pe.step4.2_reject"), (56, "h2pe.step4.2_accept"), (57, "h2pe.step4.3_accept"), (58, "h2pe.step4.3"),
    (59, "geometric.trivial"), (60, "geometric.p_tiny_max"), (61, "geometric.d_loop"), (62, "geometric.m_accept"), (63, "geometric.powf"),
    (64, "zipf.accept"), (65, "zipf.x>1"), (66, "zeta.inf_return"), (67, "zeta.accept"),
    (68, "tree.left"), (69, "tree.right"), (70, "tree.found"), (71, "ig.root1"), (72, "ig.root2"), (73, "triangular.left"), (74, "triangular.right"),
    (75, "dirichlet.gamma"), (76, "dirichlet.beta"), (81, "alias.own"), (82, "alias.alias"), (83, "skewnormal.general"),
];

pub const WORD_BUDGET: u64 = 100_000;
pub const MEAN_WORDS_BOUND: f64 = 32.0;

pub struct FaultEngine {
    prop: &'static str,
}

impl FaultEngine {
    pub fn new(prop: &'static str) -> Self {
        FaultEngine { prop }
    }
}

#[derive(Clone, Debug, Serialize, Deserialize)]
pub struct FaultRun {
    pub kind: String, // "fault-run" | "mean-words"
    pub spec: DistSpec,
    pub seed: u64,
    #[serde(default)]
    pub faults: Vec<Fault>,
    pub per_call_budget: u64,
    /// keep calling sample() until at least this many words were consumed ...
    pub min_words: u64,
    /// ... but make at most this many calls
    pub max_calls: u64,
}

/// Allocation-free description of one stream run (the hot loops build millions).
#[derive(Clone, Copy)]
pub struct RunArgs<'a> {
    pub seed: u64,
    pub faults: &'a [Fault],
    pub per_call_budget: u64,
    pub min_words: u64,
    pub max_calls: u64,
}
impl<'a> RunArgs<'a> {
    fn to_run(&self, spec: &DistSpec) -> FaultRun {
        FaultRun {
            kind: "fault-run".into(),
            spec: spec.clone(),
            seed: self.seed,
            faults: self.faults.to_vec(),
            per_call_budget: self.per_call_budget,
            min_words: self.min_words,
            max_calls: self.max_calls,
        }
    }
}
impl FaultRun {
    fn args(&self) -> RunArgs<'_> {
        RunArgs {
            seed: self.seed,
            faults: &self.faults,
            per_call_budget: self.per_call_budget,
            min_words: self.min_words,
            max_calls: self.max_calls,
        }
    }
}

struct Params {
    positions: u64,
    seeds: u64,
    random_per_family: usize,
    sweep_positions: Vec<u64>,
    sweep_all_f32: bool,
    random_calls: u64,
}

fn params(ctx: &Ctx) -> Params {
    match ctx.tier {
        Tier::Quick => Params {
            positions: 16,
            seeds: 4,
            random_per_family: 2,
            sweep_positions: vec![0],
            sweep_all_f32: false,
            random_calls: 100_000,
        },
        Tier::Thorough => Params {
            positions: 16,
            seeds: 48,
            random_per_family: 16,
            sweep_positions: vec![0, 1, 2],
            sweep_all_f32: true,
            random_calls: 5_000_000,
        },
    }
}

/// All configurations of the fault engine; deterministic in (seed, tier).
pub fn configs(ctx: &Ctx) -> Vec<DistSpec> {
    let pr = params(ctx);
    let mut v: Vec<DistSpec> = Vec::new();
    let mut r = SimRng::new(mix(&[ctx.seed, 0xC03]));
    for s in [Scalar::F32, Scalar::F64] {
        for fam in env::CONT_FAMILIES {
            v.extend(env::cont_grid(fam, s));
            if !matches!(fam, Family::StandardNormal | Family::Exp1) {
                for _ in 0..pr.random_per_family {
                    v.push(env::cont_random(fam, s, &mut r));
                }
            }
        }
        for fam in env::DISC_FLOAT_FAMILIES {
            v.extend(env::disc_grid(fam, s));
            for _ in 0..pr.random_per_family * 4 {
                v.push(env::disc_random(fam, s, &mut r));
            }
        }
        v.extend(env::dirichlet_grid(s));
        for _ in 0..pr.random_per_family {
            v.push(env::dirichlet_random(s, &mut r));
        }
    }
    for fam in env::DISC_INT_FAMILIES {
        v.extend(env::disc_grid(fam, Scalar::None));
        if fam != Family::StandardGeometric {
            for _ in 0..pr.random_per_family * 8 {
                v.push(env::disc_random(fam, Scalar::None, &mut r));
            }
        }
    }
    // integer extremes (all of u64 is in the quantifier of C03/C05)
    for n in [1u64 << 63, u64::MAX - 1, u64::MAX] {
        for p in [0.5, 0.3, 0.999, 1e-18, 1e-19, 0.5000000000000001, 9.5e-18, 3e-18, 1.5e-17] {
            v.push(DistSpec::i(Family::Binomial, &[n], &[p]));
        }
    }
    for t in [
        [1u64 << 62, 1u64 << 61, 1u64 << 61],
        [1u64 << 63, 1u64 << 62, 1u64 << 62],
        [u64::MAX - 2, 1u64 << 62, 1u64 << 62],
        [u64::MAX - 2, 1u64 << 63, 1u64 << 63],
        [1u64 << 62, 1u64 << 40, 1u64 << 61],
        // (a draw count of 2^30 here made the constructor run for 7 CPU-s before it returned
        // PopulationTooLarge: nothing was ever sampled and the time sat next to the hang limit)
        [1u64 << 62, (1u64 << 62) - 100, 1u64 << 20],
    ] {
        v.push(DistSpec::i(Family::Hypergeometric, &t, &[]));
    }
    for l in [1.8e19, 1.844e19, 1e17, 1e18, 5e18, 1.1e19] {
        v.push(DistSpec::f(Family::Poisson, Scalar::F64, &[l]));
    }
    // the infinite results the documentation names: Exp(0), Gamma with an infinite
    // parameter (must be +inf, never NaN)
    for s in [Scalar::F32, Scalar::F64] {
        v.push(DistSpec::f(Family::Exp, s, &[0.0]));
        for shape in [0.005, 0.04, 0.1, 0.5, 1.0, 2.0, 100.0] {
            v.push(DistSpec::f(Family::Gamma, s, &[shape, f64::INFINITY]));
        }
        v.push(DistSpec::f(Family::Gamma, s, &[f64::INFINITY, 2.0]));
    }
    // Zipf::new accepts any real n >= 1: with a fractional n the proposal floor(n) + 1 is an
    // ordinary event (not only a rounding overshoot), and the result must still be an integer
    for s in [Scalar::F32, Scalar::F64] {
        for (n, sx) in [(10.5, 1.0), (2.5, 0.7), (1000.75, 2.0), (1.5, 3.0), (7.25, 0.0), (1.0625, 1.0)] {
            v.push(DistSpec::f(Family::Zipf, s, &[n, sx]));
        }
    }
    // Geometric(0) = u64::MAX is documented; p so small that 1 - p == 1 behaves the same
    for p in [0.0, 1e-17, 1.1e-16, 1.2e-16, 3e-16] {
        v.push(DistSpec::i(Family::Geometric, &[], &[p]));
    }
    v.extend(env::geometric_octaves());
    v.extend(env::geom_specs());
    v.extend(env::weighted_specs());
    if ctx.property == "C05" {
        // beyond-E extremes: termination only (last clause of C05)
        v.extend(env::extreme_specs());
    }
    v
}

/// number of regular (in-E) configurations; the rest are beyond-E extremes
fn n_regular(ctx: &Ctx) -> usize {
    if ctx.property == "C05" {
        configs(ctx).len() - env::extreme_specs().len()
    } else {
        usize::MAX
    }
}

/// Outcome of one stream run (several sample() calls on one stream).
pub struct RunOutcome {
    pub calls: u64,
    pub words: u64,
    pub fired: u32,
    /// words consumed by the call in which the (first) fault fired
    pub words_in_faulted_call: u64,
    /// reach-probe mask (path signature) of that call
    pub mask_of_faulted_call: u128,
    /// word actually delivered at the first fault position
    pub violation: Option<(String, String, String)>, // class, detail, loc
    pub violating_call: u64,
    pub digest: u64,
}

pub fn run_stream(obj: &dyn Obj, spec: &DistSpec, run: &FaultRun, call_base: u64) -> RunOutcome {
    run_args(obj, spec, run.args(), call_base)
}

pub fn run_args(obj: &dyn Obj, spec: &DistSpec, run: RunArgs<'_>, call_base: u64) -> RunOutcome {
    let mut rng = if run.faults.len() == 1 {
        SimRng::one_fault(run.seed, run.faults[0].pos, run.faults[0].inject)
    } else {
        SimRng::with_faults(run.seed, run.faults.to_vec())
    };
    let mut d = Digest::new();
    let _ = rand_distr::verif_hooks::take_probes(); // no leftovers from earlier work
    let mut out = RunOutcome {
        calls: 0,
        words: 0,
        fired: 0,
        words_in_faulted_call: 0,
        mask_of_faulted_call: 0,
        violation: None,
        violating_call: 0,
        digest: 0,
    };
    while out.calls < run.max_calls && (rng.pos < run.min_words || out.calls == 0) {
        let before = rng.pos;
        let fired_before = rng.fired;
        rng.budget = rng.pos.saturating_add(run.per_call_budget);
        mark_call(call_base);
        let r = guarded(|| obj.sample(&mut rng));
        let mask = rand_distr::verif_hooks::take_probes();
        out.calls += 1;
        if rng.fired > fired_before && fired_before == 0 {
            out.words_in_faulted_call = rng.pos - before;
            out.mask_of_faulted_call = mask;
        }
        match r {
            Caught::Ok(o) => {
                d.add_all(&o.bits());
                d.add(rng.pos);
                if let Some((class, detail)) = support::check(spec, &o) {
                    out.violation = Some((class.to_string(), format!("{} -> {}", detail, o.show()), String::new()));
                    out.violating_call = out.calls - 1;
                    break;
                }
            }
            Caught::Budget(p) => {
                out.violation = Some((
                    "word-budget".into(),
                    format!("sample() consumed more than {} words (stream position {})", run.per_call_budget, p),
                    String::new(),
                ));
                out.violating_call = out.calls - 1;
                break;
            }
            Caught::Panic { msg, loc } => {
                out.violation = Some((format!("panic"), format!("{msg} @ {loc}"), loc));
                out.violating_call = out.calls - 1;
                break;
            }
        }
    }
    out.words = rng.pos;
    out.fired = rng.fired;
    out.digest = d.0;
    out
}

fn is_c03_class(c: &str) -> bool {
    matches!(c, "panic" | "nan" | "non-finite" | "out-of-support" | "zero-weight-index" | "crash")
}
fn is_c05_class(c: &str) -> bool {
    matches!(c, "word-budget" | "hang" | "mean-words")
}

fn delivered_word(run: &FaultRun) -> Option<u64> {
    // recompute the word delivered at the first fault position
    let f = run.faults.first()?;
    let mut plain = SimRng::new(run.seed);
    let mut w = 0;
    for _ in 0..=f.pos {
        w = plain.word();
    }
    let mut x = w;
    for g in run.faults.iter().filter(|g| g.pos == f.pos) {
        x = g.inject.apply(x);
    }
    Some(x)
}

fn make_sig(spec: &DistSpec, class: &str, loc: &str, run: &FaultRun) -> BTreeMap<String, String> {
    let mut sig = BTreeMap::new();
    sig.insert("family".into(), format!("{:?}", spec.family));
    sig.insert(
        "scalar".into(),
        match (spec.scalar, spec.wty) {
            (Scalar::F32, _) => "f32".into(),
            (Scalar::F64, _) => "f64".into(),
            (_, Some(w)) => format!("{w:?}").to_lowercase(),
            _ => "none".into(),
        },
    );
    sig.insert("class".into(), class.to_string());
    if !loc.is_empty() {
        // file only: line numbers move with unrelated edits
        sig.insert("loc".into(), loc.rsplit_once(':').map(|(f, _)| f.to_string()).unwrap_or_else(|| loc.to_string()));
    }
    if let Some(w) = delivered_word(run) {
        sig.insert("tags".into(), support::word_tags(w).join(","));
    } else {
        sig.insert("tags".into(), "no-fault".into());
    }
    let reg = env::regime_tags(spec);
    if !reg.is_empty() {
        sig.insert("regime".into(), reg.join(","));
    }
    sig
}

/// Shrink a failing run while the same violation class (and panic location) persists.
fn minimise(obj: &dyn Obj, spec: &DistSpec, run: &FaultRun, class: &str, loc: &str) -> (FaultRun, u32) {
    let mut best = run.clone();
    let mut steps = 0u32;
    let still = |cand: &FaultRun| -> Option<u64> {
        let o = run_stream(obj, spec, cand, 0);
        match &o.violation {
            Some((c, _, l)) if c == class && l == loc => Some(o.violating_call),
            _ => None,
        }
    };
    // 1. truncate to the failing call
    if let Some(vc) = still(&best) {
        let mut c = best.clone();
        c.max_calls = vc + 1;
        c.min_words = u64::MAX;
        if still(&c).is_some() {
            best = c;
            steps += 1;
        }
    }
    // 2. drop faults one at a time
    let mut i = 0;
    while i < best.faults.len() {
        let mut c = best.clone();
        c.faults.remove(i);
        if still(&c).is_some() {
            best = c;
            steps += 1;
        } else {
            i += 1;
        }
    }
    // 3. simplify the word: replace partial injections by the pure pattern
    for i in 0..best.faults.len() {
        for fill in [0u64, !0u64] {
            let w = best.faults[i].inject.apply(fill);
            let mut c = best.clone();
            c.faults[i].inject = Inject::Word(w);
            if c.faults[i].inject != best.faults[i].inject && still(&c).is_some() {
                best = c;
                steps += 1;
                break;
            }
        }
    }
    // 4. smallest base seed among 0..63
    for s in 0..64u64 {
        if s == best.seed {
            break;
        }
        let mut c = best.clone();
        c.seed = s;
        if let Some(vc) = still(&c) {
            c.max_calls = vc + 1;
            best = c;
            steps += 1;
            break;
        }
    }
    // 5. move the fault toward position 0
    if best.faults.len() == 1 {
        for pos in 0..best.faults[0].pos {
            let mut c = best.clone();
            c.faults[0].pos = pos;
            if let Some(vc) = still(&c) {
                c.max_calls = vc + 1;
                best = c;
                steps += 1;
                break;
            }
        }
    }
    (best, steps)
}

impl FaultEngine {
    fn wanted(&self, class: &str) -> bool {
        if self.prop == "C03" {
            is_c03_class(class)
        } else {
            is_c05_class(class)
        }
    }

    fn report(
        &self,
        res: &mut CaseResult,
        seen: &mut BTreeSet<String>,
        obj: &dyn Obj,
        spec: &DistSpec,
        run: &FaultRun,
        o: &RunOutcome,
    ) {
        let (class, detail, loc) = o.violation.clone().unwrap();
        if !self.wanted(&class) {
            res.stat_sum(&format!("other_property_events:{class}"), 1.0);
            return;
        }
        let sig0 = make_sig(spec, &class, &loc, run);
        let key = serde_json::to_string(&sig0).unwrap();
        if !seen.insert(key) {
            return; // already reported with this signature in this case
        }
        let (min_run, steps) = minimise(obj, spec, run, &class, &loc);
        let o2 = run_stream(obj, spec, &min_run, 0);
        let detail2 = o2.violation.as_ref().map(|v| v.1.clone()).unwrap_or(detail);
        let sig = make_sig(spec, &class, &loc, &min_run);
        let mut case = serde_json::to_value(&min_run).unwrap();
        case["minimised_from"] = json!({"faults": run.faults.len(), "calls": o.calls, "shrink_steps": steps});
        case["label"] = json!(spec.label());
        case["trace_tail"] = json!(trace_of(obj, &min_run));
        res.violations.push(Violation { class, detail: format!("{}: {}", spec.label(), detail2), sig, case });
    }
}

/// The word-consumption bound is per scalar variate: a Dirichlet sample of length n is
/// n (or n-1) gamma / beta variates.
fn out_dim(spec: &DistSpec) -> f64 {
    match spec.family {
        Family::Dirichlet => spec.p.len() as f64,
        Family::UnitCircle | Family::UnitDisc => 2.0,
        Family::UnitSphere | Family::UnitBall => 3.0,
        _ => 1.0,
    }
}

fn trace_of(obj: &dyn Obj, run: &FaultRun) -> Vec<String> {
    let mut rng = SimRng::with_faults(run.seed, run.faults.clone()).traced();
    let mut calls = 0;
    while calls < run.max_calls && (rng.pos < run.min_words || calls == 0) {
        rng.budget = rng.pos.saturating_add(run.per_call_budget.min(64));
        let r = guarded(|| obj.sample(&mut rng));
        calls += 1;
        if !matches!(r, Caught::Ok(_)) {
            break;
        }
    }
    rng.trace_tail()
}

/// quick tier sweeps the grid configurations only; the random points of each family
/// follow the grid in `configs()`, so "is a grid configuration" is decided by the spec
/// itself being a member of the family's grid
fn self_grid_limit(cfgs: &[DistSpec], index: usize) -> usize {
    let spec = &cfgs[index];
    if env::cont_grid(spec.family, spec.scalar).iter().any(|g| g == spec) {
        index + 1
    } else {
        0
    }
}

fn sweep_wanted(spec: &DistSpec, all_f32: bool) -> bool {
    if spec.scalar != Scalar::F32 {
        return false;
    }
    if all_f32 {
        return !(spec.family == Family::Dirichlet && spec.p.len() > 8);
    }
    matches!(
        spec.family,
        Family::Cauchy | Family::Pareto | Family::Weibull | Family::Gumbel | Family::Frechet | Family::Triangular
    )
}

impl Engine for FaultEngine {
    fn property(&self) -> &'static str {
        self.prop
    }
    fn level(&self) -> &'static str {
        "fault_enumeration"
    }
    fn rule(&self) -> String {
        "one case per configuration (type x scalar x parameters in E: fixed grid straddling every switch + seeded random points + integer extremes); in each: every word of the boundary lattice F1-F4 injected at every stream position 0..15 for S base seeds, sample() called until >=16 words are consumed so the fault always lands in an in-flight call; the full 2^24 sweep of the top 24 bits at position(s) k for f32 configurations; random streams. evaluations = sample() calls. A run is non-trivial iff its fault fired; distinct_nontrivial counts distinct (configuration, fault kind, position, outcome class, words consumed by the faulted call) tuples among those.".into()
    }
    fn assumptions(&self) -> Vec<String> {
        vec![
            "adversary = one word per stream (as the statement says); two-word coincidences are outside the quantifier".into(),
            "base streams are xoshiro256++ words".into(),
            "hang = no progress of the call counter across 8 s of process CPU time (10^4 x the slowest healthy call)".into(),
            "harness feature set: std, libm floats, serde; x86-64 Linux".into(),
        ]
    }
    fn num_cases(&self, ctx: &Ctx) -> usize {
        configs(ctx).len()
    }
    fn judges(&self, class: &str) -> bool {
        self.wanted(class)
    }
    fn hang_secs(&self) -> f64 {
        // C03 does not judge hangs (C05 does): give up on a stuck call sooner
        if self.prop == "C03" {
            2.0
        } else {
            8.0
        }
    }

    fn hang_case(&self, ctx: &Ctx, index: usize, call: u64) -> Option<(BTreeMap<String, String>, Value)> {
        let cfgs = configs(ctx);
        let spec = cfgs.get(index)?;
        let run = nth_run(ctx, spec, index, call)?;
        let sig = make_sig(spec, "hang", "", &run);
        let mut case = serde_json::to_value(&run).unwrap();
        case["label"] = json!(spec.label());
        Some((sig, case))
    }

    fn describe(&self, ctx: &Ctx, index: usize) -> String {
        configs(ctx).get(index).map(|s| s.label()).unwrap_or_default()
    }
    fn run_case(&self, ctx: &Ctx, index: usize) -> CaseResult {
        let cfgs = configs(ctx);
        let spec = &cfgs[index];
        let mut pr = params(ctx);
        let extreme = index >= n_regular(ctx);
        if extreme {
            // beyond E: a short exploration, judged for termination only
            pr.positions = 4;
            pr.seeds = 1;
            pr.random_calls = 2_000;
        }
        let mut res = CaseResult::new(index);
        let mut d = Digest::new();
        let obj = match build_caught(spec) {
            Ok(o) => o,
            Err(e) => {
                res.notes.push(format!("constructor rejected/panicked (not judged here, C04): {e}"));
                return res;
            }
        };
        let obj: &dyn Obj = &*obj;
        let lattice = boundary_lattice();
        let label = spec.label();
        let mut keys: BTreeSet<u64> = BTreeSet::new();
        let mut seen: BTreeSet<String> = BTreeSet::new();
        let skips = skip_set();

        // ---- (A) boundary lattice ------------------------------------------------
        let mut run_id: u64 = 0;
        for pos in 0..pr.positions {
            for (kind, inj) in &lattice {
                for s in 0..pr.seeds {
                    run_id += 1;
                    if skips.contains(&(index as u64, run_id)) {
                        continue;
                    }
                    let fl = [Fault { pos, inject: *inj }];
                    let args = RunArgs {
                        seed: mix(&[ctx.seed, index as u64, s]),
                        faults: &fl,
                        per_call_budget: WORD_BUDGET,
                        min_words: 16,
                        max_calls: 64,
                    };
                    let o = run_args(obj, spec, args, run_id);
                    res.evaluations += o.calls;
                    res.sim_words += o.words;
                    res.inj(kind, 1);
                    d.add(o.digest);
                    if o.fired > 0 {
                        res.fired(kind, 1);
                        let class = o.violation.as_ref().map(|v| v.0.as_str()).unwrap_or("ok");
                        keys.insert(hash_key(&[
                            &label,
                            kind,
                            &pos.to_string(),
                            class,
                            &o.words_in_faulted_call.min(64).to_string(),
                            &format!("{:x}", o.mask_of_faulted_call),
                        ]));
                    }
                    if o.violation.is_some() {
                        self.report(&mut res, &mut seen, obj, spec, &args.to_run(spec), &o);
                    }
                }
            }
        }

        // ---- (B) full 2^24 sweep for f32 draws -----------------------------------
        if !extreme && sweep_wanted(spec, pr.sweep_all_f32) && (ctx.tier == Tier::Thorough || index < self_grid_limit(&cfgs, index)) {
            for &pos in &pr.sweep_positions {
                let seed = mix(&[ctx.seed, index as u64, 0x5EE9, pos]);
                // find the call that contains stream position `pos` (prefix calls never
                // see the fault, so they are simulated once)
                let mut base = SimRng::new(seed);
                let mut prefix_ok = true;
                loop {
                    let saved = base.clone();
                    base.budget = base.pos + WORD_BUDGET;
                    match guarded(|| obj.sample(&mut base)) {
                        Caught::Ok(_) => {}
                        _ => {
                            prefix_ok = false;
                            break;
                        }
                    }
                    if base.pos > pos {
                        base = saved;
                        break;
                    }
                    if base.pos == saved.pos {
                        // consumes no words at all: nothing to sweep
                        prefix_ok = false;
                        break;
                    }
                }
                if !prefix_ok {
                    continue;
                }
                let mut fired = 0u64;
                let mut classes: BTreeMap<String, u64> = BTreeMap::new();
                for v in 0..(1u64 << 24) {
                    if v & 0xfff == 0 {
                        run_id += 1;
                        mark_call(run_id);
                    }
                    if skips.contains(&(index as u64, run_id)) {
                        continue;
                    }
                    let mut rng = base.clone();
                    rng.set_single_fault(pos, Inject::High { bits: 24, value: v });
                    rng.budget = rng.pos + WORD_BUDGET;
                    let before = rng.pos;
                    let r = guarded(|| obj.sample(&mut rng));
                    res.evaluations += 1;
                    res.sim_words += rng.pos - before;
                    fired += rng.fired as u64;
                    let viol = match r {
                        Caught::Ok(o) => {
                            if v & 0xffff == 0 {
                                d.add_all(&o.bits());
                            }
                            support::check(spec, &o).map(|(c, dt)| (c.to_string(), format!("{} -> {}", dt, o.show()), String::new()))
                        }
                        Caught::Budget(p) => Some(("word-budget".to_string(), format!("more than {WORD_BUDGET} words in one call (pos {p})"), String::new())),
                        Caught::Panic { msg, loc } => Some(("panic".to_string(), format!("{msg} @ {loc}"), loc)),
                    };
                    if let Some(vv) = viol {
                        *classes.entry(vv.0.clone()).or_insert(0) += 1;
                        let fl = [Fault { pos, inject: Inject::High { bits: 24, value: v } }];
                        let args = RunArgs { seed, faults: &fl, per_call_budget: WORD_BUDGET, min_words: pos + 1, max_calls: 64 };
                        let o = RunOutcome {
                            calls: 1,
                            words: rng.pos,
                            fired: 1,
                            words_in_faulted_call: rng.pos - before,
                            mask_of_faulted_call: 0,
                            violation: Some(vv),
                            violating_call: 0,
                            digest: 0,
                        };
                        self.report(&mut res, &mut seen, obj, spec, &args.to_run(spec), &o);
                    }
                }
                res.inj("F5", 1 << 24);
                res.fired("F5", fired);
                for (c, n) in &classes {
                    keys.insert(hash_key(&[&label, "F5", &pos.to_string(), c]));
                    res.stat_sum(&format!("sweep_events:{c}"), *n as f64);
                }
                keys.insert(hash_key(&[&label, "F5", &pos.to_string(), "ok"]));
                res.stat_sum("sweep_config_positions", 1.0);
            }
        }

        // ---- (C) random streams: mean / max words, support on typical streams -----
        {
            run_id += 1;
            let seed = mix(&[ctx.seed, index as u64, 0xAAAA]);
            let mut rng = SimRng::new(seed);
            let mut max_words = 0u64;
            let mut calls = 0u64;
            // vector-valued samplers are slower: scale the count down
            let n_calls = match spec.family {
                Family::Dirichlet => (pr.random_calls / (spec.p.len() as u64).max(1)).max(1000),
                _ => pr.random_calls,
            };
            let mut viol: Option<RunOutcome> = None;
            // calls grouped by the number of words they consumed: a proxy for the path
            // taken (retry, wedge, tail ...); the first two of each are kept with the
            // stream state at call start for the targeted injection of part (D)
            let mut by_words: BTreeMap<(u128, u64), Vec<(u64, SimRng)>> = BTreeMap::new();
            let mut probe_counts = [0u64; 128];
            let _ = rand_distr::verif_hooks::take_probes();
            while calls < n_calls {
                let before = rng.pos;
                let at_start = if by_words.len() < 40 && calls < 60_000 { Some(rng.clone()) } else { None };
                rng.budget = rng.pos + WORD_BUDGET;
                if calls & 0x3ff == 0 {
                    mark_call(run_id);
                }
                let r = guarded(|| obj.sample(&mut rng));
                calls += 1;
                let used = rng.pos - before;
                if used > max_words {
                    max_words = used;
                }
                let mut mask = rand_distr::verif_hooks::take_probes();
                if let Some(st) = at_start {
                    let e = by_words.entry((mask, used.min(24))).or_default();
                    if e.is_empty() && used > 0 {
                        e.push((calls - 1, st));
                    }
                }
                while mask != 0 {
                    let b = mask.trailing_zeros();
                    probe_counts[b as usize] += 1;
                    mask &= mask - 1;
                }
                let v = match r {
                    Caught::Ok(o) => {
                        if calls & 0xff == 0 {
                            d.add_all(&o.bits());
                        }
                        support::check(spec, &o).map(|(c, dt)| (c.to_string(), format!("{} -> {}", dt, o.show()), String::new()))
                    }
                    Caught::Budget(p) => Some(("word-budget".to_string(), format!("more than {WORD_BUDGET} words in one call (pos {p})"), String::new())),
                    Caught::Panic { msg, loc } => Some(("panic".to_string(), format!("{msg} @ {loc}"), loc)),
                };
                if let Some(vv) = v {
                    viol = Some(RunOutcome {
                        calls,
                        words: rng.pos,
                        fired: 0,
                        words_in_faulted_call: 0,
                        mask_of_faulted_call: 0,
                        violation: Some(vv),
                        violating_call: calls - 1,
                        digest: 0,
                    });
                    break;
                }
            }
            res.evaluations += calls;
            res.sim_words += rng.pos;
            res.stat_max("distinct_paths_per_configuration", by_words.len() as f64);
            for (i, c) in probe_counts.iter().enumerate() {
                if *c > 0 {
                    res.stat_sum(&format!("probe:{i}"), *c as f64);
                }
            }
            for (m, u) in by_words.keys() {
                keys.insert(hash_key(&[&label, "path", &format!("{m:x}"), &u.to_string()]));
            }

            // ---- (D) targeted injection: the adversarial word is placed inside calls
            // that the *natural* stream drove down a rarer path (found above), at every
            // word position of that call.  Still a single-word deviation from a random
            // stream, i.e. inside the quantifier.
            if viol.is_none() {
                // F1 and the pure-pattern members of F2 (94 words)
                let sub: Vec<&(&'static str, Inject)> = lattice
                    .iter()
                    .filter(|(k, i)| *k == "F1" || (*k == "F2" && matches!(i, Inject::High { .. } | Inject::Word(_)) && !matches!(i, Inject::Word(w) if w & 0x7ff == 0x7ff && *w != !0)))
                    .collect();
                for ((pmask, used), states) in &by_words {
                    for (call_idx, st) in states {
                        for j in 0..(*used).min(8) {
                            run_id += 1;
                            if skips.contains(&(index as u64, run_id)) {
                                continue;
                            }
                            mark_call(run_id);
                            for (kind, inj) in &sub {
                                let mut r2 = st.clone();
                                let pos = st.pos + j;
                                r2.set_single_fault(pos, *inj);
                                r2.budget = r2.pos + WORD_BUDGET;
                                let before = r2.pos;
                                let r = guarded(|| obj.sample(&mut r2));
                                res.evaluations += 1;
                                res.sim_words += r2.pos - before;
                                res.inj("targeted", 1);
                                let vv = match r {
                                    Caught::Ok(o) => support::check(spec, &o)
                                        .map(|(c, dt)| (c.to_string(), format!("{} -> {}", dt, o.show()), String::new())),
                                    Caught::Budget(p) => Some(("word-budget".to_string(), format!("more than {WORD_BUDGET} words in one call (pos {p})"), String::new())),
                                    Caught::Panic { msg, loc } => Some(("panic".to_string(), format!("{msg} @ {loc}"), loc)),
                                };
                                if r2.fired > 0 {
                                    res.fired("targeted", 1);
                                    let class = vv.as_ref().map(|v| v.0.as_str()).unwrap_or("ok");
                                    keys.insert(hash_key(&[&label, "targeted", kind, &format!("{pmask:x}"), &used.to_string(), &j.to_string(), class]));
                                }
                                if let Some(vv) = vv {
                                    let fl = [Fault { pos, inject: *inj }];
                                    let args = RunArgs { seed, faults: &fl, per_call_budget: WORD_BUDGET, min_words: u64::MAX, max_calls: call_idx + 1 };
                                    let o = RunOutcome {
                                        calls: call_idx + 1,
                                        words: r2.pos,
                                        fired: r2.fired,
                                        words_in_faulted_call: r2.pos - before,
                                        mask_of_faulted_call: 0,
                                        violation: Some(vv),
                                        violating_call: *call_idx,
                                        digest: 0,
                                    };
                                    self.report(&mut res, &mut seen, obj, spec, &args.to_run(spec), &o);
                                }
                            }
                        }
                    }
                }
            }
            let mean = rng.pos as f64 / calls.max(1) as f64;
            res.stat_max("mean_words_per_call", mean);
            res.stat_max("mean_words_per_scalar_variate", mean / out_dim(spec));
            res.stat_max("max_words_in_one_call", max_words as f64);
            res.stat_sum("random_stream_calls", calls as f64);
            keys.insert(hash_key(&[&label, "random", &format!("{:.0}", mean * 4.0), &max_words.min(64).to_string()]));
            if let Some(o) = viol {
                let run = FaultRun {
                    kind: "fault-run".into(),
                    spec: spec.clone(),
                    seed,
                    faults: vec![],
                    per_call_budget: WORD_BUDGET,
                    min_words: u64::MAX,
                    max_calls: o.violating_call + 1,
                };
                self.report(&mut res, &mut seen, obj, spec, &run, &o);
            } else if mean > MEAN_WORDS_BOUND * out_dim(spec) && self.prop == "C05" && !extreme {
                let run = FaultRun {
                    kind: "mean-words".into(),
                    spec: spec.clone(),
                    seed,
                    faults: vec![],
                    per_call_budget: WORD_BUDGET,
                    min_words: u64::MAX,
                    max_calls: calls.min(20_000),
                };
                let sig = make_sig(spec, "mean-words", "", &run);
                let mut case = serde_json::to_value(&run).unwrap();
                case["label"] = json!(label);
                res.violations.push(Violation {
                    class: "mean-words".into(),
                    detail: format!("{label}: mean {mean:.1} words per sample() over {calls} random-stream calls exceeds {MEAN_WORDS_BOUND}"),
                    sig,
                    case,
                });
            }
        }

        res.keys = keys.into_iter().collect();
        res.digest = d.0;
        res.notes.push(format!("label={label}"));
        if extreme {
            res.stat_sum("beyond_E_extreme_configurations(termination_only)", 1.0);
        }
        if index % 97 == 0 || !res.violations.is_empty() {
            res.samples.push(json!({
                "configuration": label,
                "example_run": {"seed": mix(&[ctx.seed, index as u64, 0]), "fault": {"pos": 3, "inject": lattice[30].1}, "calls_until_16_words": true},
                "runs_in_case": run_id,
            }));
        }
        res
    }

    fn replay(&self, _ctx: &Ctx, case: &Value) -> Result<Vec<Violation>, String> {
        let run: FaultRun = serde_json::from_value(case.clone()).map_err(|e| format!("bad replay case: {e}"))?;
        let spec = run.spec.clone();
        let obj = build_caught(&spec)?;
        let obj: &dyn Obj = &*obj;
        let mut out = Vec::new();
        if run.kind == "mean-words" {
            let mut rng = SimRng::new(run.seed);
            let mut calls = 0;
            while calls < run.max_calls {
                rng.budget = rng.pos + run.per_call_budget;
                mark_call(calls);
                if !matches!(guarded(|| obj.sample(&mut rng)), Caught::Ok(_)) {
                    break;
                }
                calls += 1;
            }
            let mean = rng.pos as f64 / calls.max(1) as f64;
            println!("replay: mean words per call = {mean:.2} over {calls} calls");
            if mean > MEAN_WORDS_BOUND * out_dim(&spec) {
                out.push(Violation {
                    class: "mean-words".into(),
                    detail: format!("mean {mean:.1}"),
                    sig: make_sig(&spec, "mean-words", "", &run),
                    case: case.clone(),
                });
            }
            return Ok(out);
        }
        let o = run_stream(obj, &spec, &run, 0);
        println!(
            "replay: {} seed={} faults={:?} calls={} words={} fired={}",
            spec.label(),
            run.seed,
            run.faults,
            o.calls,
            o.words,
            o.fired
        );
        for l in trace_of(obj, &run) {
            println!("  word {l}");
        }
        if let Some((class, detail, loc)) = o.violation {
            println!("replay: outcome class={class} detail={detail}");
            out.push(Violation { class: class.clone(), detail, sig: make_sig(&spec, &class, &loc, &run), case: case.clone() });
        } else {
            println!("replay: outcome ok");
        }
        Ok(out)
    }

    fn extra_evidence(&self, _ctx: &Ctx, stats: &BTreeMap<String, f64>) -> Value {
        let mut hit = BTreeMap::new();
        let mut never = Vec::new();
        for (id, name) in PROBE_NAMES {
            match stats.get(&format!("sum:probe:{id}")) {
                Some(c) => {
                    hit.insert(name.to_string(), *c as u64);
                }
                None => never.push(name.to_string()),
            }
        }
        json!({
            "probes_hit": hit,
            "probes_never_hit": never,
            "word_budget_per_call": WORD_BUDGET,
            "mean_words_bound": MEAN_WORDS_BOUND,
            "largest_mean_words_per_call_observed": stats.get("max:mean_words_per_call"),
            "largest_mean_words_per_scalar_variate_observed": stats.get("max:mean_words_per_scalar_variate"),
            "largest_words_in_one_call_observed": stats.get("max:max_words_in_one_call"),
            "boundary_lattice_words": boundary_lattice().len(),
        })
    }
}

/// (case, run) pairs to skip, set by the supervisor after a hang so that the rest of the
/// case can still be explored: env VERIF_SKIP="case:run,case:run".
fn skip_set() -> BTreeSet<(u64, u64)> {
    let mut s = BTreeSet::new();
    if let Ok(v) = std::env::var("VERIF_SKIP") {
        for part in v.split(',') {
            if let Some((a, b)) = part.split_once(':') {
                if let (Ok(a), Ok(b)) = (a.parse(), b.parse()) {
                    s.insert((a, b));
                }
            }
        }
    }
    s
}

/// Reconstruct run number `run_id` of case `index` (same numbering as `run_case`).
fn nth_run(ctx: &Ctx, spec: &DistSpec, index: usize, run_id: u64) -> Option<FaultRun> {
    let mut pr = params(ctx);
    if index >= n_regular(ctx) {
        pr.positions = 4;
        pr.seeds = 1;
        pr.random_calls = 2_000;
    }
    let lattice = boundary_lattice();
    let l = lattice.len() as u64;
    let a_total = pr.positions * l * pr.seeds;
    if run_id == 0 {
        return None;
    }
    if run_id <= a_total {
        let k = run_id - 1;
        let s = k % pr.seeds;
        let li = (k / pr.seeds) % l;
        let pos = k / (pr.seeds * l);
        return Some(FaultRun {
            kind: "fault-run".into(),
            spec: spec.clone(),
            seed: mix(&[ctx.seed, index as u64, s]),
            faults: vec![Fault { pos, inject: lattice[li as usize].1 }],
            per_call_budget: WORD_BUDGET,
            min_words: 16,
            max_calls: 64,
        });
    }
    // sweeps are numbered in blocks of 4096 values; report the block start (the replay
    // then covers the first value of the block; the hang is re-found by the sweep itself)
    let mut rid = a_total;
    if index < n_regular(ctx) && sweep_wanted(spec, pr.sweep_all_f32) {
        for &pos in &pr.sweep_positions {
            let blocks = (1u64 << 24) >> 12;
            if run_id <= rid + blocks {
                let v = (run_id - rid - 1) << 12;
                return Some(FaultRun {
                    kind: "fault-run".into(),
                    spec: spec.clone(),
                    seed: mix(&[ctx.seed, index as u64, 0x5EE9, pos]),
                    faults: vec![Fault { pos, inject: Inject::High { bits: 24, value: v } }],
                    per_call_budget: WORD_BUDGET,
                    min_words: pos + 1,
                    max_calls: 64,
                });
            }
            rid += blocks;
        }
    }
    // random-stream part
    Some(FaultRun {
        kind: "fault-run".into(),
        spec: spec.clone(),
        seed: mix(&[ctx.seed, index as u64, 0xAAAA]),
        faults: vec![],
        per_call_budget: WORD_BUDGET,
        min_words: u64::MAX,
        max_calls: pr.random_calls,
    })
}

#[allow(dead_code)]
fn _unused(_: Out) {}
