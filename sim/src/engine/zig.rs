//! C06 — the ziggurat primitives are exact.
//!
//! (a) State audit through the cfg-guarded hook: both 257-entry tables and the two tail
//!     constants against the defining equations (exhaustive, 4 x 257 + 2 constants).
//! (b) Forced per-layer laws (fault kind F3): the low 8 bits of the first word are
//!     injected = layer i, everything else stays random; the conditional law of the output
//!     given the first layer is closed-form and is tested per layer (x256 amplification);
//!     layer 0 with a forced tail mantissa tests the tail law directly; the sign symmetry
//!     of the normal is checked bit-exactly on paired words.

use crate::envelope::{below, u01};
use crate::runner::{guarded, hash_key, mark_call, CaseResult, Caught, Ctx, Digest, Engine, Tier, Violation};
use crate::simrng::{mix, Fault, Inject, SimRng};
use crate::stats;
use rand_distr::{Distribution, Exp1, StandardNormal};
use serde_json::{json, Value};
use std::collections::BTreeMap;

pub struct ZigEngine;

#[derive(Clone, Copy, PartialEq, Debug)]
pub enum Which {
    Norm,
    Exp,
}

fn phi(x: f64) -> f64 {
    0.5 * libm::erfc(-x / std::f64::consts::SQRT_2)
}
/// upper tail of the standard normal
fn phi_c(x: f64) -> f64 {
    0.5 * libm::erfc(x / std::f64::consts::SQRT_2)
}

impl Which {
    fn tables(self) -> (&'static [f64; 257], &'static [f64; 257], f64) {
        match self {
            Which::Norm => rand_distr::verif_hooks::zig_norm(),
            Which::Exp => rand_distr::verif_hooks::zig_exp(),
        }
    }
    /// unnormalised density used by the tables
    fn f(self, x: f64) -> f64 {
        match self {
            Which::Norm => (-0.5 * x * x).exp(),
            Which::Exp => (-x).exp(),
        }
    }
    fn f_inv(self, y: f64) -> f64 {
        match self {
            Which::Norm => (-2.0 * y.ln()).sqrt(),
            Which::Exp => -y.ln(),
        }
    }
    /// A(x) = int_0^x f
    fn area0(self, x: f64) -> f64 {
        match self {
            Which::Norm => (std::f64::consts::PI / 2.0).sqrt() * libm::erf(x / std::f64::consts::SQRT_2),
            Which::Exp => -(-x).exp_m1(),
        }
    }
    /// int_r^inf f
    fn tail_area(self, r: f64) -> f64 {
        match self {
            Which::Norm => (std::f64::consts::PI / 2.0).sqrt() * libm::erfc(r / std::f64::consts::SQRT_2),
            Which::Exp => (-r).exp(),
        }
    }
    /// CDF of the full target law
    fn target_cdf(self, x: f64) -> f64 {
        match self {
            Which::Norm => phi(x),
            Which::Exp => {
                if x <= 0.0 {
                    0.0
                } else {
                    -(-x).exp_m1()
                }
            }
        }
    }
    fn name(self) -> &'static str {
        match self {
            Which::Norm => "StandardNormal",
            Which::Exp => "Exp1",
        }
    }
}

// ---------------------------------------------------------------------------
// (a) table audit
// ---------------------------------------------------------------------------

pub fn audit(which: Which) -> (Vec<(String, usize, String)>, u64, f64, f64) {
    let (x, f, r) = which.tables();
    let mut bad: Vec<(String, usize, String)> = Vec::new();
    let mut checks = 0u64;
    let v = r * which.f(r) + which.tail_area(r);
    let mut max_f_err: f64 = 0.0;
    let mut max_area_dev: f64 = 0.0;
    // end points
    checks += 4;
    if x[1] != r {
        bad.push(("x".into(), 1, format!("x[1] = {:e} is not the tail constant r = {:e}", x[1], r)));
    }
    if x[256] != 0.0 {
        bad.push(("x".into(), 256, format!("x[256] = {:e}, expected 0", x[256])));
    }
    if f[256] != 1.0 {
        bad.push(("f".into(), 256, format!("f[256] = {:e}, expected f(0) = 1", f[256])));
    }
    let x0_want = v / which.f(r);
    if ((x[0] - x0_want) / x0_want).abs() > 1e-8 {
        bad.push(("x".into(), 0, format!("x[0] = {:e} but v / f(r) = {:e}", x[0], x0_want)));
    }
    for i in 0..257 {
        checks += 1;
        let fi = which.f(x[i]);
        let e = (f[i] - fi).abs();
        if e > max_f_err {
            max_f_err = e;
        }
        if !(e <= 1e-14) {
            bad.push(("f".into(), i, format!("f[{i}] = {:e} but f(x[{i}]) = {:e} (diff {:e})", f[i], fi, e)));
        }
        if i < 256 {
            checks += 1;
            if !(x[i] > x[i + 1]) {
                bad.push(("x".into(), i, format!("x not strictly decreasing at {i}: {:e} !> {:e}", x[i], x[i + 1])));
            }
            if !(f[i] < f[i + 1]) {
                bad.push(("f".into(), i, format!("f not strictly increasing at {i}: {:e} !< {:e}", f[i], f[i + 1])));
            }
        }
    }
    // layer areas: layer 0 is the base strip x0*f(r); layers 1..255 are x_i (f_{i+1} - f_i)
    checks += 1;
    let a0 = x[0] * which.f(r);
    let dev0 = ((a0 - v) / v).abs();
    max_area_dev = max_area_dev.max(dev0);
    if !(dev0 <= 1e-8) {
        bad.push(("area".into(), 0, format!("base strip x[0]*f(r) = {:e} differs from r f(r) + tail = {:e} by {:e} relative", a0, v, dev0)));
    }
    for i in 1..256 {
        checks += 1;
        let a = x[i] * (f[i + 1] - f[i]);
        let dev = ((a - v) / v).abs();
        if dev > max_area_dev {
            max_area_dev = dev;
        }
        if !(dev <= 1e-8) {
            bad.push(("area".into(), i, format!("layer {i} area {:e} differs from v = {:e} by {:e} relative", a, v, dev)));
        }
    }
    // defining recurrence, regenerated: x_{i+1} = f^-1(v / x_i + f(x_i))
    for i in 1..255 {
        checks += 1;
        let want = which.f_inv(v / x[i] + which.f(x[i]));
        if !((x[i + 1] - want).abs() <= 1e-9 * (1.0 + want.abs()) * (1.0 + 1.0 / want.max(1e-3))) {
            bad.push(("x".into(), i + 1, format!("x[{}] = {:e} but the recurrence from x[{i}] gives {:e}", i + 1, x[i + 1], want)));
        }
    }
    (bad, checks, max_f_err, max_area_dev)
}

// ---------------------------------------------------------------------------
// (b) conditional laws
// ---------------------------------------------------------------------------

/// P(0 <= X <= x, accepted in the layer) for the positive half (normal: includes the
/// factor 1/2 of the sign), x >= 0.
fn h_plus(which: Which, i: usize, x: f64) -> f64 {
    let (xt, ft, _) = which.tables();
    let xi = xt[i];
    let xi1 = xt[i + 1];
    let c = if which == Which::Norm { 2.0 } else { 1.0 };
    let core = x.min(xi1);
    let wedge = if x > xi1 {
        let xm = x.min(xi);
        (which.area0(xm) - which.area0(xi1) - ft[i] * (xm - xi1)) / (ft[i + 1] - ft[i])
    } else {
        0.0
    };
    (core + wedge) / (c * xi)
}

/// CDF of the output given that the first word selected layer `i`.
pub fn cond_cdf(which: Which, i: usize, x: f64) -> f64 {
    let (xt, _, r) = which.tables();
    if i == 0 {
        let x0 = xt[0];
        let pc = r / x0; // core: uniform on (-r, r) / (0, r)
        match which {
            Which::Norm => {
                let tail_c = phi_c(r);
                if x >= r {
                    pc + (1.0 - pc) * (0.5 + 0.5 * (1.0 - phi_c(x) / tail_c))
                } else if x > -r {
                    pc * (x + r) / (2.0 * r) + (1.0 - pc) * 0.5
                } else {
                    (1.0 - pc) * 0.5 * (phi_c(-x) / tail_c)
                }
            }
            Which::Exp => {
                if x <= 0.0 {
                    0.0
                } else if x < r {
                    pc * x / r
                } else {
                    pc + (1.0 - pc) * (-(-(x - r)).exp_m1())
                }
            }
        }
    } else {
        let xi = xt[i];
        let acc_half = h_plus(which, i, xi);
        match which {
            Which::Norm => {
                let rho = 1.0 - 2.0 * acc_half;
                if x >= 0.0 {
                    acc_half + h_plus(which, i, x) + rho * phi(x)
                } else {
                    acc_half - h_plus(which, i, -x) + rho * phi(x)
                }
            }
            Which::Exp => {
                let rho = 1.0 - acc_half;
                if x <= 0.0 {
                    0.0
                } else {
                    h_plus(which, i, x) + rho * which.target_cdf(x)
                }
            }
        }
    }
}

fn quantile_of<F: Fn(f64) -> f64>(cdf: F, p: f64, mut lo: f64, mut hi: f64) -> f64 {
    for _ in 0..200 {
        let mid = 0.5 * (lo + hi);
        if cdf(mid) < p {
            lo = mid;
        } else {
            hi = mid;
        }
        if hi - lo <= 1e-14 * hi.abs().max(1.0) {
            break;
        }
    }
    0.5 * (lo + hi)
}

fn sample_one(which: Which, rng: &mut SimRng) -> f64 {
    match which {
        Which::Norm => StandardNormal.sample(rng),
        Which::Exp => Exp1.sample(rng),
    }
}

pub struct LayerOutcome {
    pub d: f64,
    pub width: f64,
    pub where_: f64,
    pub words: u64,
    pub nan: u64,
}

/// Empirical-vs-reference Kolmogorov distance on an edge table, for samples drawn with
/// the injection `inj` at the first word of every call.
fn forced_run<C: Fn(f64) -> f64>(which: Which, inj: impl Fn(&mut SimRng) -> Inject, cdf: C, edges: &[f64], n: u64, seed: u64) -> Result<LayerOutcome, String> {
    let mut counts = vec![0u64; edges.len() + 1];
    let mut sched = SimRng::new(mix(&[seed, 0x5C4ED]));
    let mut rng = SimRng::new(seed);
    let mut nan = 0u64;
    let start = rng.pos;
    for k in 0..n {
        if k & 0x3fff == 0 {
            mark_call(k);
        }
        let pos = rng.pos;
        rng.set_single_fault(pos, inj(&mut sched));
        rng.budget = rng.pos + 100_000;
        let x = match guarded(|| sample_one(which, &mut rng)) {
            Caught::Ok(x) => x,
            Caught::Panic { msg, loc } => return Err(format!("panic: {msg} @ {loc}")),
            Caught::Budget(_) => return Err("word budget exceeded".into()),
        };
        if x.is_nan() {
            nan += 1;
            continue;
        }
        let idx = edges.partition_point(|e| *e < x); // number of edges < x  => x <= edges[idx]
        counts[idx] += 1;
    }
    let mut d: f64 = 0.0;
    let mut where_ = 0.0;
    let mut cum = 0u64;
    let nn = (n - nan) as f64;
    for (j, e) in edges.iter().enumerate() {
        cum += counts[j];
        let emp = cum as f64 / nn; // P(X <= e_j)
        let dd = (emp - cdf(*e)).abs();
        if dd > d {
            d = dd;
            where_ = *e;
        }
    }
    Ok(LayerOutcome { d, width: 0.0, where_, words: rng.pos - start, nan })
}

fn layer_edges(which: Which, i: usize) -> Vec<f64> {
    let (xt, _, r) = which.tables();
    let cdf = |x: f64| cond_cdf(which, i, x);
    let (lo, hi) = match which {
        Which::Norm => (-45.0, 45.0),
        Which::Exp => (0.0, 800.0),
    };
    let mut e: Vec<f64> = Vec::new();
    let ps = [1e-5, 1e-4, 1e-3, 0.01, 0.02, 0.05];
    for p in ps {
        e.push(quantile_of(cdf, p, lo, hi));
        e.push(quantile_of(cdf, 1.0 - p, lo, hi));
    }
    for k in 1..48 {
        e.push(quantile_of(cdf, k as f64 / 48.0, lo, hi));
    }
    // structural edges
    let xi = xt[i];
    let xi1 = if i == 0 { r } else { xt[i + 1] };
    for s in [xi, xi1] {
        e.push(s);
        e.push(s * 0.999);
        e.push(s * 1.001);
        if which == Which::Norm {
            e.push(-s);
            e.push(-s * 0.999);
            e.push(-s * 1.001);
        }
    }
    e.push(0.0);
    e.retain(|x| x.is_finite());
    e.sort_by(|a, b| a.partial_cmp(b).unwrap());
    e.dedup();
    e
}

fn n_per_layer(ctx: &Ctx) -> u64 {
    if ctx.tier == Tier::Thorough {
        40_000_000
    } else {
        1_000_000
    }
}

const LAYERS_PER_CASE: usize = 8;

fn mk_violation(class: &str, detail: String, which: Which, case: Value) -> Violation {
    let mut sig = BTreeMap::new();
    sig.insert("family".into(), which.name().to_string());
    sig.insert("class".into(), class.to_string());
    Violation { class: class.to_string(), detail, sig, case }
}

/// layer test with screen + confirmation
fn test_layer(which: Which, i: usize, n: u64, seed: u64) -> Result<(LayerOutcome, Option<String>), String> {
    let edges = layer_edges(which, i);
    let cdf = |x: f64| cond_cdf(which, i, x);
    let inj = |_: &mut SimRng| Inject::Low { bits: 8, value: i as u64 };
    let mut o = forced_run(which, inj, cdf, &edges, n, seed)?;
    o.width = stats::dkw_width((n - o.nan) as f64, stats::ALPHA_SCREEN);
    if o.nan > 0 {
        return Ok((o, Some("NaN returned".into())));
    }
    if o.d > o.width {
        let o2 = forced_run(which, inj, cdf, &edges, 4 * n, mix(&[seed, 0xC0F1]))?;
        let w2 = stats::dkw_width(4.0 * n as f64, stats::ALPHA_CONFIRM);
        if o2.d > w2 {
            let msg = format!(
                "conditional law given first layer {i}: Kolmogorov distance {:.3e} at x = {:.6} (DKW width {:.3e} at N = {}), confirmed on an independent stream: {:.3e} at x = {:.6} (width {:.3e}, N = {})",
                o.d,
                o.where_,
                o.width,
                n,
                o2.d,
                o2.where_,
                w2,
                4 * n
            );
            return Ok((o, Some(msg)));
        }
    }
    Ok((o, None))
}

/// tail law: layer 0 with a mantissa forced into the tail branch
fn test_tail(which: Which, n: u64, seed: u64) -> Result<(LayerOutcome, Option<String>), String> {
    let (xt, _, r) = which.tables();
    let frac = r / xt[0]; // |u| >= frac goes to the tail
    let cdf = move |x: f64| -> f64 {
        match which {
            Which::Norm => {
                let t = phi_c(r);
                if x >= r {
                    0.5 + 0.5 * (1.0 - phi_c(x) / t)
                } else if x > -r {
                    0.5
                } else {
                    0.5 * phi_c(-x) / t
                }
            }
            Which::Exp => {
                if x < r {
                    0.0
                } else {
                    -(-(x - r)).exp_m1()
                }
            }
        }
    };
    let mut edges: Vec<f64> = Vec::new();
    for p in [1e-6, 1e-5, 1e-4, 1e-3, 0.01, 0.05, 0.1, 0.2, 0.3, 0.4, 0.45, 0.55, 0.6, 0.7, 0.8, 0.9, 0.95, 0.99, 0.999, 1.0 - 1e-4, 1.0 - 1e-5, 1.0 - 1e-6] {
        edges.push(quantile_of(cdf, p, -60.0, 800.0));
    }
    edges.push(r);
    edges.push(-r);
    edges.sort_by(|a, b| a.partial_cmp(b).unwrap());
    edges.dedup();
    let inj = move |s: &mut SimRng| {
        // mantissa m in [0, 2^52): normal u = -1 + m 2^-51, exp u = (m + 1/2) 2^-52
        let t = frac + (1.0 - frac) * u01(s);
        let two52 = (1u64 << 52) as f64;
        let mant = match which {
            Which::Norm => {
                let mag = ((1.0 + t) * 0.5 * two52) as u64; // u = +t
                let m = mag.min((1u64 << 52) - 1);
                if below(s, 2) == 0 {
                    m
                } else {
                    (1u64 << 52) - m // u = -t
                }
            }
            Which::Exp => ((t * two52) as u64).min((1u64 << 52) - 1),
        };
        Inject::Zig { layer: 0, mant: mant.min((1u64 << 52) - 1) }
    };
    let mut o = forced_run(which, inj, cdf, &edges, n, seed)?;
    o.width = stats::dkw_width(n as f64, stats::ALPHA_SCREEN);
    if o.nan > 0 {
        return Ok((o, Some("NaN returned".into())));
    }
    if o.d > o.width {
        let o2 = forced_run(which, inj, cdf, &edges, 4 * n, mix(&[seed, 0xC0F1]))?;
        let w2 = stats::dkw_width(4.0 * n as f64, stats::ALPHA_CONFIRM);
        if o2.d > w2 {
            return Ok((
                o,
                Some(format!(
                    "tail law beyond r (layer 0, forced tail mantissa): Kolmogorov distance {:.3e} at x = {:.6} (width {:.3e}), confirmed {:.3e} at x = {:.6} (width {:.3e})",
                    0.0_f64.max(o2.d),
                    o2.where_,
                    o2.width.max(w2),
                    o2.d,
                    o2.where_,
                    w2
                )),
            ));
        }
    }
    Ok((o, None))
}

/// Deep-tail quantile lattice: layer 0 with a tail mantissa, and the tail's own uniform
/// injected at the quantiles q = 2^-k and 3*2^-(k+1) (k = 1..=50).  The output must be the
/// tail quantile function at a uniform within a factor 2 of q (either orientation u or 1-u
/// of the draw is accepted, and any of the [0,1) conversions: they differ by <= 2^-52).
/// A law test cannot see the tail of the tail (mass e^-15 of a branch of mass 1e-4..1e-3);
/// a uniform of reduced resolution (an f32 draw, a 32-bit word) fails here.
/// Returns (evaluations, first failure).
fn test_tail_quantiles(which: Which, seed: u64, skipped: &mut u64) -> (u64, Option<(String, Value)>) {
    let (_, _, r) = which.tables();
    let mut evals = 0;
    let kmax = match which {
        Which::Exp => 50,
        // the normal tail accepts (x, y) iff 2y >= x^2 with y = -ln(u2): with u2 ~ 2^-52 that
        // holds up to x = 8.4, i.e. q >= 2^-44
        Which::Norm => 42,
    };
    for k in 1..=kmax {
        for (num, sh) in [(1u64, k), (3u64, k + 1)] {
            let q = num as f64 * 0.5f64.powi(sh as i32);
            let word = ((num as u128) << (64 - sh as u32)) as u64;
            for mirror in [false, true] {
                if mirror && which == Which::Exp {
                    continue;
                }
                // mantissa at the top of the range: |u| = 1 - 2^-51 (normal), u ~ 1 (exp)
                let mant = match (which, mirror) {
                    (Which::Norm, false) => (1u64 << 52) - 1,
                    (Which::Norm, true) => 1,
                    (Which::Exp, _) => (1u64 << 52) - 1,
                };
                let faults = vec![
                    Fault { pos: 0, inject: Inject::Zig { layer: 0, mant } },
                    Fault { pos: 1, inject: Inject::Word(word) },
                    // second uniform of the normal tail: as small as possible, so the pair is accepted
                    Fault { pos: 2, inject: Inject::Word(1 << 12) },
                ];
                let mut rng = SimRng::with_faults(seed, faults);
                rng.budget = 64;
                evals += 1;
                let case = json!({"kind": "zig-tail-quantile", "which": which.name(), "k": k, "num": num, "mirror": mirror, "seed": seed});
                let x = match guarded(|| sample_one(which, &mut rng)) {
                    Caught::Ok(x) => x,
                    Caught::Panic { msg, loc } => return (evals, Some((format!("panic: {msg} @ {loc}"), case))),
                    Caught::Budget(_) => return (evals, Some(("word budget exceeded".into(), case))),
                };
                let want_words = if which == Which::Exp { 2 } else { 3 };
                if rng.pos != want_words {
                    // not the expected tail path (the table's r changed?): judged by the audit
                    *skipped += 1;
                    continue;
                }
                // effective uniform of the tail draw, from the output
                let excess = match which {
                    Which::Exp => x - r,
                    Which::Norm => (x.abs() - r) * r,
                };
                let ueff = (-excess).exp();
                let ok = |u: f64| u / q >= 0.5 && u / q <= 2.0;
                // orientation 1-u: excess = -ln(1-q) ~ q
                let alt = -(-excess).exp_m1();
                if !(ok(ueff) || ok(alt)) || !x.is_finite() {
                    return (
                        evals,
                        Some((
                            format!(
                                "tail draw injected at quantile {num}*2^-{sh} = {q:e}: output {x:e} corresponds to a uniform of {ueff:e} (ratio {:.3e}); the tail of the tail is not reachable at the resolution of an f64 uniform",
                                ueff / q
                            ),
                            case,
                        )),
                    );
                }
            }
        }
    }
    (evals, None)
}

/// Wedge-conditional law: the layer is forced, the mantissa is forced into the wedge part
/// of the layer, the acceptance uniform is left to the stream.  Given acceptance (exactly
/// two words consumed) |x| has density proportional to pdf(x) - f[i] on (x[i+1], x[i]),
/// whose CDF is closed-form.  The per-layer law test sees a wedge through the whole layer
/// (the wedge is 1-10 % of it): a wedge whose *shape* is wrong but whose mass is right moves
/// the layer's CDF by less than that test resolves.  Returns (accepted samples, D, width).
fn test_wedge_law(which: Which, layer: u8, n: u64, seed: u64) -> Result<(u64, f64, f64, f64), String> {
    let (xt, ft, _) = which.tables();
    let i = layer as usize;
    let (xi, xi1) = (xt[i], xt[i + 1]);
    let norm = which.area0(xi) - which.area0(xi1) - ft[i] * (xi - xi1);
    let g = |x: f64| (which.area0(x) - which.area0(xi1) - ft[i] * (x - xi1)) / norm;
    const K: usize = 16;
    let mut counts = [0u64; K + 1];
    let mut sched = SimRng::new(mix(&[seed, 0x3ED6E, layer as u64]));
    let mut rng = SimRng::new(mix(&[seed, 0x3ED6F, layer as u64]));
    let lo = xi1 / xi;
    let two52 = (1u64 << 52) as f64;
    let mut acc = 0u64;
    for k in 0..n {
        if k & 0x3fff == 0 {
            mark_call(k);
        }
        let t = lo + (1.0 - lo) * u01(&mut sched);
        let mant = match which {
            Which::Norm => {
                let mag = (((1.0 + t) * 0.5 * two52) as u64).min((1u64 << 52) - 1);
                if below(&mut sched, 2) == 0 {
                    mag
                } else {
                    (1u64 << 52) - mag
                }
            }
            Which::Exp => ((t * two52) as u64).min((1u64 << 52) - 1),
        };
        let pos = rng.pos;
        rng.set_single_fault(pos, Inject::Zig { layer, mant });
        rng.budget = rng.pos + 100_000;
        let x = match guarded(|| sample_one(which, &mut rng)) {
            Caught::Ok(x) => x,
            Caught::Panic { msg, loc } => return Err(format!("panic: {msg} @ {loc}")),
            Caught::Budget(_) => return Err("word budget exceeded".into()),
        };
        if rng.pos - pos != 2 {
            continue; // rejected (or not a wedge candidate after rounding)
        }
        let ax = x.abs();
        if !(ax >= xi1 && ax <= xi) {
            continue;
        }
        acc += 1;
        let cell = (((ax - xi1) / (xi - xi1)) * K as f64) as usize;
        counts[cell.min(K)] += 1;
    }
    if acc == 0 {
        return Ok((0, 0.0, 1.0, 0.0));
    }
    let mut d: f64 = 0.0;
    let mut at = 0.0;
    let mut cum = 0u64;
    for c in 0..K {
        cum += counts[c];
        let e = xi1 + (xi - xi1) * (c + 1) as f64 / K as f64;
        let dd = (cum as f64 / acc as f64 - g(e)).abs();
        if dd > d {
            d = dd;
            at = e;
        }
    }
    Ok((acc, d, stats::dkw_width(acc as f64, stats::ALPHA_CONFIRM / 256.0), at))
}

/// Restart equivalence of the rejection loop: a ziggurat candidate that is rejected in its
/// wedge (2 words) must leave no trace -- the call has to continue exactly like a fresh call
/// on the rest of the stream.  Stream A = [wedge candidate of a random layer, uniform 0
/// (rejects: f[i+1] < pdf(x) is false inside the wedge), w2, ...]; stream B = the same words from w2 on.  Output bits and final stream
/// position must agree.  In half of the runs w2 is forced into layer 0 (base strip or tail),
/// the layer whose handling differs from all others.  Catches retry paths that skip a test
/// ("no need to repeat the rectangle test on retries") without any statistics.
/// Returns (runs, runs whose first candidate was indeed rejected, first failure).
fn test_restart_equivalence(which: Which, n: u64, seed: u64) -> (u64, u64, Option<(String, Value)>) {
    let (xt, _, _) = which.tables();
    let mut sched = SimRng::new(mix(&[seed, 0x2E57A27]));
    let mut rejected = 0u64;
    for k in 0..n {
        if k & 0x3fff == 0 {
            mark_call(k);
        }
        let layer = 1 + below(&mut sched, 255) as u8; // 1..=255
        let i = layer as usize;
        // |u| in the wedge part of the layer: x[i+1]/x[i] < |u| < 1
        let lo = xt[i + 1] / xt[i];
        let t = lo + (1.0 - lo) * (0.02 + 0.96 * u01(&mut sched));
        let two52 = (1u64 << 52) as f64;
        let mant = match which {
            Which::Norm => {
                let mag = (((1.0 + t) * 0.5 * two52) as u64).min((1u64 << 52) - 1);
                if below(&mut sched, 2) == 0 {
                    mag
                } else {
                    (1u64 << 52) - mag
                }
            }
            Which::Exp => ((t * two52) as u64).min((1u64 << 52) - 1),
        };
        let stream_seed = sched.word();
        let force0 = below(&mut sched, 2) == 0;
        let w2 = Inject::Zig { layer: 0, mant: sched.word() >> 12 };
        let mut fa = vec![Fault { pos: 0, inject: Inject::Zig { layer, mant } }, Fault { pos: 1, inject: Inject::Word(0) }];
        let mut fb = vec![];
        if force0 {
            fa.push(Fault { pos: 2, inject: w2 });
            fb.push(Fault { pos: 2, inject: w2 });
        }
        let mut a = SimRng::with_faults(stream_seed, fa);
        a.budget = 100_000;
        let mut b = SimRng::with_faults(stream_seed, fb);
        b.budget = 100_000;
        b.word();
        b.word();
        let case = json!({"kind": "zig-restart", "which": which.name(), "n": n, "seed": seed, "run": k});
        let xa = match guarded(|| sample_one(which, &mut a)) {
            Caught::Ok(x) => x,
            Caught::Panic { msg, loc } => return (k, rejected, Some((format!("panic: {msg} @ {loc}"), case))),
            Caught::Budget(_) => return (k, rejected, Some(("word budget exceeded".into(), case))),
        };
        if a.pos < 3 {
            continue; // the candidate was accepted (x below the wedge after rounding): nothing to compare
        }
        rejected += 1;
        let xb = match guarded(|| sample_one(which, &mut b)) {
            Caught::Ok(x) => x,
            Caught::Panic { msg, loc } => return (k, rejected, Some((format!("panic: {msg} @ {loc}"), case))),
            Caught::Budget(_) => return (k, rejected, Some(("word budget exceeded".into(), case))),
        };
        if xa.to_bits() != xb.to_bits() || a.pos != b.pos {
            return (
                k,
                rejected,
                Some((
                    format!(
                        "after a rejected wedge candidate (layer {layer}, mantissa {mant:#x}) the call returned {xa:e} at stream position {}, a fresh call on the rest of the stream returns {xb:e} at position {}{}",
                        a.pos,
                        b.pos,
                        if force0 { " (retry word forced into layer 0)" } else { "" }
                    ),
                    case,
                )),
            );
        }
    }
    (n, rejected, None)
}

/// bit-exact sign symmetry of the normal on paired words (m, 2^52 - m)
fn test_symmetry(n: u64, seed: u64) -> Result<(u64, Option<String>), String> {
    let mut s = SimRng::new(seed);
    for k in 0..n {
        if k & 0xfff == 0 {
            mark_call(k);
        }
        let layer = (s.word() & 0xff) as u8;
        let m = 1 + below(&mut s, (1u64 << 52) - 1);
        let base = s.word();
        let mut a = SimRng::one_fault(base, 0, Inject::Zig { layer, mant: m });
        let mut b = SimRng::one_fault(base, 0, Inject::Zig { layer, mant: (1u64 << 52) - m });
        a.budget = 100_000;
        b.budget = 100_000;
        let xa: f64 = match guarded(|| StandardNormal.sample(&mut a)) {
            Caught::Ok(x) => x,
            _ => return Err("panic in symmetry run".into()),
        };
        let xb: f64 = match guarded(|| StandardNormal.sample(&mut b)) {
            Caught::Ok(x) => x,
            _ => return Err("panic in symmetry run".into()),
        };
        // accepted in the first iteration (core, wedge, tail): outputs are mirror images.
        // wedge rejected (the test is symmetric in x, so both replicas reject): both restart
        // on identical fresh words and return the *same* value; that needs >= 3 words.
        let mirrored = xa.to_bits() == (-xb).to_bits();
        let restarted_equal = xa.to_bits() == xb.to_bits() && a.pos >= 3;
        if !(mirrored || restarted_equal) || a.pos != b.pos {
            return Ok((
                k,
                Some(format!(
                    "layer {layer}, mantissa {m:#x}: x = {xa:e} but the mirrored mantissa gives {xb:e} (words {} vs {}) on base stream {base:#x}",
                    a.pos, b.pos
                )),
            ));
        }
    }
    Ok((n, None))
}

impl Engine for ZigEngine {
    fn property(&self) -> &'static str {
        "C06"
    }
    fn level(&self) -> &'static str {
        "fault_enumeration"
    }
    fn rule(&self) -> String {
        "(a) exhaustive audit of the 4 x 257 table entries and 2 tail constants read through the cfg-guarded hook against the defining ziggurat equations; (b) for each of the 2 x 256 layers the low 8 bits of the first word are injected (layer forced, rest of the stream random) and the output law is compared with the closed-form conditional law of that layer (DKW at 1e-7 + confirmation at 1e-9 on an independent stream); layer 0 with a forced tail mantissa tests the tail law; paired words (m, 2^52-m) test the sign symmetry of the normal bit-exactly. evaluations = sample() calls + table checks; distinct_nontrivial = number of (table entry) + (layer, test) items decided.".into()
    }
    fn assumptions(&self) -> Vec<String> {
        vec![
            "reference: erf/erfc/exp of libm in f64; conditional laws derived from the ZIGNOR algorithm (core rectangle, wedge by rejection, restart falls back to the full law)".into(),
            "the restart component of a layer's conditional law is taken to be the exact target law (its own error is second order: rho_i <= a few percent)".into(),
        ]
    }
    fn exhaustive(&self, _ctx: &Ctx) -> bool {
        false
    }
    fn num_cases(&self, _ctx: &Ctx) -> usize {
        1 + 2 * (256 / LAYERS_PER_CASE) + 3
    }
    fn run_case(&self, ctx: &Ctx, index: usize) -> CaseResult {
        let mut res = CaseResult::new(index);
        let n = n_per_layer(ctx);
        let mut d = Digest::new();
        let per_dist = 256 / LAYERS_PER_CASE;
        if index == 0 {
            for which in [Which::Norm, Which::Exp] {
                let (bad, checks, max_f_err, max_area) = audit(which);
                res.evaluations += checks;
                res.stat_sum("table_checks", checks as f64);
                res.stat_max(&format!("{}:max|F-f(X)|", which.name()), max_f_err);
                res.stat_max(&format!("{}:max_relative_area_deviation", which.name()), max_area);
                for k in 0..checks.min(600) {
                    res.keys.push(hash_key(&[which.name(), "table", &k.to_string()]));
                }
                for (tab, i, msg) in bad.iter().take(4) {
                    res.violations.push(mk_violation(
                        &format!("table({tab},{i})"),
                        format!("{} ziggurat table: {msg}", which.name()),
                        which,
                        json!({"kind": "zig-audit", "which": which.name()}),
                    ));
                }
                d.add(bad.len() as u64);
            }
            res.samples.push(json!({"audit": "x[1]==r, x[256]==0, f[256]==1, |f[i]-f(x[i])|<=1e-14, strict monotonicity, layer areas within 1e-8 of r f(r)+tail, recurrence"}));
        } else if index <= 2 * per_dist {
            let which = if index <= per_dist { Which::Norm } else { Which::Exp };
            let chunk = (index - 1) % per_dist;
            for i in chunk * LAYERS_PER_CASE..(chunk + 1) * LAYERS_PER_CASE {
                let seed = mix(&[ctx.seed, 0xC06, which as u64, i as u64]);
                match test_layer(which, i, n, seed) {
                    Err(e) => res.violations.push(mk_violation("panic", format!("{} forced layer {i}: {e}", which.name()), which, json!({"kind": "zig-layer", "which": which.name(), "layer": i, "n": n, "seed": seed}))),
                    Ok((o, verdict)) => {
                        res.evaluations += n;
                        res.sim_words += o.words;
                        res.inj("F3-layer", n);
                        res.fired("F3-layer", n);
                        res.stat_max("largest_D_over_DKW_width", o.d / o.width);
                        res.stat_sum("layers_tested", 1.0);
                        res.keys.push(hash_key(&[which.name(), "layer", &i.to_string()]));
                        d.add(o.d.to_bits());
                        if let Some(msg) = verdict {
                            res.violations.push(mk_violation(
                                "law(dkw,layer)",
                                format!("{}: {msg}", which.name()),
                                which,
                                json!({"kind": "zig-layer", "which": which.name(), "layer": i, "n": n, "seed": seed}),
                            ));
                        }
                        if i % 64 == 1 {
                            res.samples.push(json!({"which": which.name(), "forced_layer": i, "N": n, "D": o.d, "dkw_width": o.width, "words": o.words}));
                        }
                    }
                }
            }
        } else {
            let k = index - 2 * per_dist - 1;
            match k {
                0 | 1 => {
                    let which = if k == 0 { Which::Norm } else { Which::Exp };
                    let seed = mix(&[ctx.seed, 0xC06, 0x7A11, k as u64]);
                    let nt = n * 5;
                    match test_tail(which, nt, seed) {
                        Err(e) => res.violations.push(mk_violation("panic", format!("{} tail: {e}", which.name()), which, json!({"kind": "zig-tail", "which": which.name(), "n": nt, "seed": seed}))),
                        Ok((o, verdict)) => {
                            res.evaluations += nt;
                            res.sim_words += o.words;
                            res.inj("F3-tail-mantissa", nt);
                            res.fired("F3-tail-mantissa", nt);
                            res.stat_max("tail:largest_D_over_DKW_width", o.d / o.width);
                            res.keys.push(hash_key(&[which.name(), "tail"]));
                            d.add(o.d.to_bits());
                            if let Some(msg) = verdict {
                                res.violations.push(mk_violation("law(dkw,tail)", format!("{}: {msg}", which.name()), which, json!({"kind": "zig-tail", "which": which.name(), "n": nt, "seed": seed})));
                            }
                            res.samples.push(json!({"which": which.name(), "forced": "layer 0, tail mantissa", "N": nt, "D": o.d, "dkw_width": o.width}));
                        }
                    }
                    // wedge-conditional law of every layer
                    {
                        let per = if ctx.tier == Tier::Thorough { 400_000 } else { 40_000 };
                        let mut worst: f64 = 0.0;
                        for layer in 1..=255u8 {
                            match test_wedge_law(which, layer, per, seed) {
                                Err(e) => {
                                    res.violations.push(mk_violation("panic", format!("{} wedge of layer {layer}: {e}", which.name()), which, json!({"kind": "zig-wedge", "which": which.name(), "layer": layer, "n": per, "seed": seed})));
                                    break;
                                }
                                Ok((acc, dd, width, at)) => {
                                    res.evaluations += per;
                                    res.inj("F3-forced-wedge-mantissa", per);
                                    res.fired("F3-forced-wedge-mantissa", acc);
                                    worst = worst.max(dd / width);
                                    d.add(acc);
                                    if dd > width {
                                        // confirm on an independent stream with 4x the calls
                                        if let Ok((acc2, d2, w2, at2)) = test_wedge_law(which, layer, 4 * per, mix(&[seed, 0xC0F1])) {
                                            if d2 > w2 {
                                                res.violations.push(mk_violation(
                                                    "law(dkw,wedge)",
                                                    format!("{}: wedge of layer {layer}: given acceptance, |x| deviates from the density pdf(x) - f[{layer}] on ({:.6}, {:.6}): D = {dd:.3e} at {at:.6} (width {width:.3e}, {acc} accepted); confirmed D = {d2:.3e} at {at2:.6} (width {w2:.3e}, {acc2} accepted)", which.name(), which.tables().0[layer as usize + 1], which.tables().0[layer as usize]),
                                                    which,
                                                    json!({"kind": "zig-wedge", "which": which.name(), "layer": layer, "n": per, "seed": seed}),
                                                ));
                                                break;
                                            }
                                        }
                                    }
                                }
                            }
                        }
                        res.stat_max("wedge:largest_D_over_DKW_width", worst);
                        res.keys.push(hash_key(&[which.name(), "wedge-law"]));
                    }
                    {
                        let nr = n / 2;
                        let (runs, rej, bad) = test_restart_equivalence(which, nr, seed);
                        res.evaluations += 2 * runs;
                        res.inj("F3-forced-wedge-rejection", runs);
                        res.fired("F3-forced-wedge-rejection", rej);
                        res.stat_sum("restart_equivalence_runs", runs as f64);
                        res.stat_sum("restart_equivalence_runs_rejected_as_intended", rej as f64);
                        res.keys.push(hash_key(&[which.name(), "restart-equivalence"]));
                        d.add(rej);
                        if let Some((msg, case)) = bad {
                            res.violations.push(mk_violation("replica-mismatch(restart)", format!("{}: {msg}", which.name()), which, case));
                        }
                    }
                    let mut skipped = 0;
                    let (ev, bad) = test_tail_quantiles(which, seed, &mut skipped);
                    res.stat_sum("tail_quantile_points", ev as f64);
                    res.stat_sum("tail_quantile_points_not_on_the_tail_path", skipped as f64);
                    res.evaluations += ev;
                    res.inj("F3-tail-quantile-lattice", ev);
                    res.fired("F3-tail-quantile-lattice", ev);
                    res.keys.push(hash_key(&[which.name(), "tail-quantiles"]));
                    d.add(ev);
                    if let Some((msg, case)) = bad {
                        res.violations.push(mk_violation("law(tail-quantile)", format!("{}: {msg}", which.name()), which, case));
                    }
                }
                _ => {
                    let seed = mix(&[ctx.seed, 0xC06, 0x5E7]);
                    let ns = n * 5;
                    match test_symmetry(ns, seed) {
                        Err(e) => res.violations.push(mk_violation("panic", e, Which::Norm, json!({"kind": "zig-symmetry", "n": ns, "seed": seed}))),
                        Ok((done, verdict)) => {
                            res.evaluations += 2 * done;
                            res.inj("F3-paired-mantissa", done);
                            res.fired("F3-paired-mantissa", done);
                            res.keys.push(hash_key(&["symmetry"]));
                            d.add(done);
                            if let Some(msg) = verdict {
                                res.violations.push(mk_violation("replica-mismatch(sign)", format!("StandardNormal sign symmetry: {msg}"), Which::Norm, json!({"kind": "zig-symmetry", "n": ns, "seed": seed})));
                            }
                        }
                    }
                }
            }
        }
        res.digest = d.0;
        res
    }
    fn replay(&self, _ctx: &Ctx, case: &Value) -> Result<Vec<Violation>, String> {
        let which = if case["which"].as_str() == Some("Exp1") { Which::Exp } else { Which::Norm };
        let n = case["n"].as_u64().unwrap_or(200_000);
        let seed = case["seed"].as_u64().unwrap_or(0);
        match case["kind"].as_str().unwrap_or("") {
            "zig-audit" => {
                let (bad, checks, _, _) = audit(which);
                println!("replay: audit of {} tables: {checks} checks, {} failures", which.name(), bad.len());
                Ok(bad
                    .into_iter()
                    .take(4)
                    .map(|(t, i, m)| {
                        println!("  {m}");
                        mk_violation(&format!("table({t},{i})"), m, which, case.clone())
                    })
                    .collect())
            }
            "zig-layer" => {
                let i = case["layer"].as_u64().unwrap_or(0) as usize;
                let (o, v) = test_layer(which, i, n, seed)?;
                println!("replay: {} forced layer {i}: D = {:.3e}, width {:.3e}", which.name(), o.d, o.width);
                Ok(v.map(|m| vec![mk_violation("law(dkw,layer)", m, which, case.clone())]).unwrap_or_default())
            }
            "zig-wedge" => {
                let layer = case["layer"].as_u64().unwrap_or(1) as u8;
                let (acc, dd, width, at) = test_wedge_law(which, layer, n, seed)?;
                println!("replay: {} wedge of layer {layer}: {acc} accepted, D = {dd:.3e} at {at:.6}, width {width:.3e}", which.name());
                if dd > width {
                    let (acc2, d2, w2, _) = test_wedge_law(which, layer, 4 * n, mix(&[seed, 0xC0F1]))?;
                    if d2 > w2 {
                        return Ok(vec![mk_violation("law(dkw,wedge)", format!("{}: wedge of layer {layer}: D = {dd:.3e} (width {width:.3e}); confirmed {d2:.3e} (width {w2:.3e}, {acc2} accepted)", which.name()), which, case.clone())]);
                    }
                }
                Ok(vec![])
            }
            "zig-restart" => {
                let (_, rej, bad) = test_restart_equivalence(which, n, seed);
                match bad {
                    Some((msg, c)) => {
                        println!("replay: {} restart equivalence: {msg}", which.name());
                        Ok(vec![mk_violation("replica-mismatch(restart)", format!("{}: {msg}", which.name()), which, c)])
                    }
                    None => {
                        println!("replay: {} restart equivalence: ok ({rej} rejected candidates compared)", which.name());
                        Ok(vec![])
                    }
                }
            }
            "zig-tail-quantile" => {
                let (_, bad) = test_tail_quantiles(which, seed, &mut 0);
                match bad {
                    Some((msg, c)) => {
                        println!("replay: {} tail quantile lattice: {msg}", which.name());
                        Ok(vec![mk_violation("law(tail-quantile)", format!("{}: {msg}", which.name()), which, c)])
                    }
                    None => {
                        println!("replay: {} tail quantile lattice: ok", which.name());
                        Ok(vec![])
                    }
                }
            }
            "zig-tail" => {
                let (o, v) = test_tail(which, n, seed)?;
                println!("replay: {} tail: D = {:.3e}, width {:.3e}", which.name(), o.d, o.width);
                Ok(v.map(|m| vec![mk_violation("law(dkw,tail)", m, which, case.clone())]).unwrap_or_default())
            }
            "zig-symmetry" => {
                let (_, v) = test_symmetry(n, seed)?;
                Ok(v.map(|m| vec![mk_violation("replica-mismatch(sign)", m, Which::Norm, case.clone())]).unwrap_or_default())
            }
            k => Err(format!("unknown case kind {k}")),
        }
    }
}

#[allow(dead_code)]
fn _unused(_: Fault) {}
