//! C13 — exact induced law of single-draw f32 samplers over all 2^24 uniform values.
//!
//! Complete enumeration of the fault value (kind F5): the first word's top 24 bits take
//! every value, the other bits stay as the seeded stream gave them.  The resulting
//! 2^24-atom law is compared with the documented CDF in exact Kolmogorov distance
//! against the bound 2^-24 (1.5 + 8 sup|x f(x)|) of the statement; every atom must be
//! finite and in the support.  Applicability (one word per call) is measured.

use crate::envelope as env;
use crate::registry::{build_caught, DistSpec, Family, Obj, Scalar};
use crate::runner::{guarded, hash_key, mark_call, tick, CaseResult, Caught, Ctx, Digest, Engine, Tier, Violation};
use crate::simrng::{mix, Inject, SimRng};
use crate::support;
use serde_json::{json, Value};
use std::collections::BTreeMap;

pub struct Exact32Engine;

const FAMS: [Family; 6] = [Family::Cauchy, Family::Pareto, Family::Weibull, Family::Gumbel, Family::Frechet, Family::Triangular];

/// (CDF, x*pdf) of the documented law, f64 arithmetic.
pub fn cdf_xf(spec: &DistSpec, x: f64) -> (f64, f64) {
    let p = &spec.p;
    match spec.family {
        Family::Cauchy => {
            let z = (x - p[0]) / p[1];
            // accurate in both tails
            let f = if z < 0.0 { (-1.0 / z).atan() / std::f64::consts::PI } else { 1.0 - (1.0 / z).atan() / std::f64::consts::PI };
            let f = if z == 0.0 { 0.5 } else { f };
            let pdf = 1.0 / (std::f64::consts::PI * p[1] * (1.0 + z * z));
            (f, x * pdf)
        }
        Family::Pareto => {
            if x < p[0] {
                return (0.0, 0.0);
            }
            let l = p[1] * (p[0] / x).ln(); // <= 0
            (-l.exp_m1(), p[1] * l.exp())
        }
        Family::Weibull => {
            if x <= 0.0 {
                return (0.0, 0.0);
            }
            let t = (x / p[0]).powf(p[1]);
            (-(-t).exp_m1(), p[1] * t * (-t).exp())
        }
        Family::Gumbel => {
            let z = (x - p[0]) / p[1];
            let e = (-z).exp();
            ((-e).exp(), (x / p[1]) * e * (-e).exp())
        }
        Family::Frechet => {
            if x <= p[0] {
                return (0.0, 0.0);
            }
            let y = (x - p[0]) / p[1];
            let t = y.powf(-p[2]);
            ((-t).exp(), x * (p[2] / p[1]) * t / y * (-t).exp())
        }
        Family::Triangular => {
            let (a, b, c) = (p[0], p[1], p[2]);
            if x <= a {
                return (0.0, 0.0);
            }
            if x >= b {
                return (1.0, 0.0);
            }
            if x < c {
                ((x - a) * (x - a) / ((b - a) * (c - a)), x * 2.0 * (x - a) / ((b - a) * (c - a)))
            } else {
                (1.0 - (b - x) * (b - x) / ((b - a) * (b - c)), x * 2.0 * (b - x) / ((b - a) * (b - c)))
            }
        }
        _ => (f64::NAN, f64::NAN),
    }
}

pub fn configs(ctx: &Ctx) -> Vec<DistSpec> {
    let mut v = Vec::new();
    let mut r = SimRng::new(mix(&[ctx.seed, 0xC13]));
    let n_random = if ctx.tier == Tier::Thorough { 8 } else { 2 };
    for fam in FAMS {
        v.extend(env::cont_grid(fam, Scalar::F32));
        for _ in 0..n_random {
            v.push(env::cont_random(fam, Scalar::F32, &mut r));
        }
        v.extend(env::special_cross(fam, Scalar::F32).into_iter().filter(|s| build_caught(s).is_ok()));
        v.extend(env::magnitude_cross(fam, Scalar::F32).into_iter().filter(|s| build_caught(s).is_ok()));
    }
    v
}

pub struct ExactResult {
    pub single_draw: bool,
    pub d: f64,
    pub bound: f64,
    pub sup_xf: f64,
    pub distinct_atoms: u64,
    pub bad_atoms: Vec<(u64, String, String)>, // (v, class, detail)
    pub worst_at: f64,
    pub digest: u64,
}

pub fn enumerate(spec: &DistSpec, seed: u64) -> Result<ExactResult, String> {
    let obj = build_caught(spec)?;
    let obj: &dyn Obj = &*obj;
    // applicability: exactly one word per call on an ordinary stream
    let mut rng = SimRng::new(seed);
    let mut single = true;
    for _ in 0..256 {
        let before = rng.pos;
        rng.budget = rng.pos + 1000;
        if !matches!(guarded(|| obj.sample(&mut rng)), Caught::Ok(_)) {
            single = false;
            break;
        }
        if rng.pos - before != 1 {
            single = false;
            break;
        }
    }
    if !single {
        return Ok(ExactResult { single_draw: false, d: 0.0, bound: 0.0, sup_xf: 0.0, distinct_atoms: 0, bad_atoms: vec![], worst_at: 0.0, digest: 0 });
    }
    const M: usize = 1 << 24;
    let mut ys: Vec<f32> = Vec::with_capacity(M);
    let mut bad: Vec<(u64, String, String)> = Vec::new();
    let mut dg = Digest::new();
    let mut redraws = 0u64;
    for v in 0..M as u64 {
        if v & 0xffff == 0 {
            mark_call(v >> 16);
        }
        let mut rng = SimRng::one_fault(seed, 0, Inject::High { bits: 24, value: v });
        rng.budget = 16;
        match guarded(|| obj.sample(&mut rng)) {
            Caught::Ok(o) => {
                let y = o.as_f64().unwrap() as f32;
                if rng.pos != 1 {
                    // a draw value the sampler rejects and redraws (e.g. the uniform == 1
                    // of Gumbel / Frechet): not an atom of the one-draw law.  Its mass
                    // 2^-24 is spread by the redraw; a handful is within the bound, more
                    // means the sampler is not single-draw.
                    redraws += 1;
                    if redraws > 16 && bad.len() < 64 {
                        bad.push((v, "not-single-draw".into(), format!("consumed {} words", rng.pos)));
                    }
                    if let Some((c, dt)) = support::check(spec, &o) {
                        if bad.len() < 64 {
                            bad.push((v, c.to_string(), format!("{} -> {}", dt, o.show())));
                        }
                    }
                    continue;
                }
                if let Some((c, dt)) = support::check(spec, &o) {
                    if bad.len() < 64 {
                        bad.push((v, c.to_string(), format!("{} -> {}", dt, o.show())));
                    }
                }
                if v & 0xfff == 0 {
                    dg.add(y.to_bits() as u64);
                }
                ys.push(y);
            }
            Caught::Panic { msg, loc } => {
                if bad.len() < 64 {
                    bad.push((v, "panic".into(), format!("{msg} @ {loc}")));
                }
            }
            Caught::Budget(_) => {
                if bad.len() < 64 {
                    bad.push((v, "word-budget".into(), "more than 16 words".into()));
                }
            }
        }
    }
    tick();
    // atoms that are not finite cannot be placed on the real line: they are reported as
    // bad atoms above; for the distance they sit at +-infinity
    ys.sort_unstable_by(|a, b| a.total_cmp(b));
    tick();
    let m = ys.len() as f64;
    let mut d: f64 = 0.0;
    let mut worst_at = 0.0;
    let mut sup_xf: f64 = 0.0;
    let mut distinct = 0u64;
    let mut i = 0usize;
    while i < ys.len() {
        let y = ys[i];
        let mut j = i + 1;
        while j < ys.len() && ys[j].to_bits() == y.to_bits() {
            j += 1;
        }
        distinct += 1;
        if distinct & 0xfffff == 0 {
            tick();
        }
        if y.is_finite() {
            let (f, xf) = cdf_xf(spec, y as f64);
            if xf.abs() > sup_xf {
                sup_xf = xf.abs();
            }
            let mut dd = (f - i as f64 / m).abs().max((f - j as f64 / m).abs());
            // The bound of the statement assumes f32's relative spacing 2^-24.  At zero
            // and in the subnormal range the spacing is coarser (underflow): there the
            // atom legitimately collects the mass of every ideal value that rounds to it,
            // so the actual spacing is used as that atom's resolution.
            // Same underflow-zone rule as the law engine: below 2^10 * MIN_POSITIVE (times
            // the scale the family multiplies last) the standardised variate itself
            // underflows, so atoms in the zone jointly carry the zone's mass.
            let zone = 1024.0 * f32::MIN_POSITIVE as f64 * super::law::zone_scale_of(spec);
            if (y.abs() as f64) < zone {
                let res = cdf_xf(spec, zone).0 - cdf_xf(spec, -zone).0;
                dd = (dd - res.abs()).max(0.0);
            }
            if dd > d {
                d = dd;
                worst_at = y as f64;
            }
        }
        i = j;
    }
    // redrawn values move at most redraws * 2^-24 of mass
    let d = (d - redraws as f64 / (1u64 << 24) as f64).max(0.0);
    let bound = (1.5 + 8.0 * sup_xf) / (1u64 << 24) as f64;
    Ok(ExactResult { single_draw: true, d, bound, sup_xf, distinct_atoms: distinct, bad_atoms: bad, worst_at, digest: dg.0 })
}

fn sig_for(spec: &DistSpec, class: &str, tags: String) -> BTreeMap<String, String> {
    let mut sig = BTreeMap::new();
    sig.insert("family".into(), format!("{:?}", spec.family));
    sig.insert("scalar".into(), "f32".into());
    sig.insert("class".into(), class.to_string());
    if !tags.is_empty() {
        sig.insert("tags".into(), tags);
    }
    let reg = env::regime_tags(spec);
    if !reg.is_empty() {
        sig.insert("regime".into(), reg.join(","));
    }
    sig
}

fn judge(spec: &DistSpec, seed: u64, r: &ExactResult) -> Vec<Violation> {
    let mut out = Vec::new();
    let mut seen = std::collections::BTreeSet::new();
    for (v, class, detail) in &r.bad_atoms {
        // the word that was delivered: top 24 bits = v, the rest from the seeded stream
        let mut plain = SimRng::new(seed);
        let w = Inject::High { bits: 24, value: *v }.apply(plain.word());
        let tags = support::word_tags(w).join(",");
        let sig = sig_for(spec, class, tags);
        if !seen.insert(serde_json::to_string(&sig).unwrap()) {
            continue;
        }
        out.push(Violation {
            class: class.clone(),
            detail: format!("{}: atom for top-24-bit value {v:#x}: {detail}", spec.label()),
            sig,
            case: json!({"kind": "exact32", "spec": spec, "seed": seed, "atom": v}),
        });
    }
    if r.single_draw && r.d > r.bound {
        out.push(Violation {
            class: "law(exact-kolmogorov)".into(),
            detail: format!(
                "{}: exact Kolmogorov distance of the 2^24-atom law from the documented CDF is {:.4e} at x = {:e}, above the bound 2^-24(1.5 + 8 sup|x f(x)|) = {:.4e} (sup|x f| = {:.4e})",
                spec.label(),
                r.d,
                r.worst_at,
                r.bound,
                r.sup_xf
            ),
            sig: {
                let mut sg = sig_for(spec, "law(exact-kolmogorov)", String::new());
                sg.insert("excess".into(), if r.d <= 1.5 * r.bound { "le1.5x".into() } else { "gt1.5x".into() });
                sg
            },
            case: json!({"kind": "exact32", "spec": spec, "seed": seed}),
        });
    }
    out
}

impl Engine for Exact32Engine {
    fn property(&self) -> &'static str {
        "C13"
    }
    fn level(&self) -> &'static str {
        "fault_enumeration"
    }
    fn rule(&self) -> String {
        "for Cauchy, Pareto, Weibull, Gumbel, Frechet, Triangular in f32 x the grid of E (+ seeded random points): all 2^24 values of the top 24 bits of the first word are enumerated (remaining bits from the seeded stream), every call must consume exactly one word, outputs are sorted and the exact Kolmogorov distance to the documented CDF is compared with 2^-24(1.5+8 sup|x f(x)|); every atom is checked against the support. evaluations = sample() calls; distinct_nontrivial = number of distinct output atoms over all configurations (a configuration whose bound is vacuous, >= 1, contributes its atoms but is listed as point-mass-like).".into()
    }
    fn assumptions(&self) -> Vec<String> {
        vec!["reference CDFs are closed forms evaluated in f64".into(), "the low 40 bits of the word do not influence an f32 uniform (measured: one word per call)".into()]
    }
    fn exhaustive(&self, _ctx: &Ctx) -> bool {
        true
    }
    fn num_cases(&self, ctx: &Ctx) -> usize {
        configs(ctx).len()
    }
    fn run_case(&self, ctx: &Ctx, index: usize) -> CaseResult {
        let cfgs = configs(ctx);
        let spec = &cfgs[index];
        let mut res = CaseResult::new(index);
        let seed = mix(&[ctx.seed, 0xC13, index as u64]);
        match enumerate(spec, seed) {
            Err(e) => res.notes.push(format!("constructor failed: {e}")),
            Ok(r) => {
                if !r.single_draw {
                    res.notes.push(format!("{}: not single-draw -> covered by C01", spec.label()));
                    res.stat_sum("configurations_not_single_draw", 1.0);
                    return res;
                }
                res.evaluations = 1 << 24;
                res.sim_words = 1 << 24;
                res.inj("F5", 1 << 24);
                res.fired("F5", 1 << 24);
                res.stat_sum("configurations_enumerated", 1.0);
                res.stat_sum("distinct_atoms", r.distinct_atoms as f64);
                res.stat_max("largest_D_over_bound", r.d / r.bound);
                if r.bound >= 1.0 {
                    res.stat_sum("configurations_with_vacuous_bound(point-mass-like)", 1.0);
                } else {
                    res.stat_max("largest_D_over_bound_nonvacuous", r.d / r.bound);
                }
                // distinct atoms: hash of (config, count) stands for the atoms of this config
                for k in 0..r.distinct_atoms.min(64) {
                    res.keys.push(hash_key(&[&spec.label(), &k.to_string()]));
                }
                res.stats.insert(format!("sum:atoms:{}", spec.label()), r.distinct_atoms as f64);
                res.digest = r.digest ^ r.d.to_bits();
                res.samples.push(json!({"configuration": spec.label(), "D": r.d, "bound": r.bound, "sup|x f(x)|": r.sup_xf, "distinct_atoms": r.distinct_atoms, "worst_at": r.worst_at}));
                res.violations = judge(spec, seed, &r);
            }
        }
        res
    }
    fn replay(&self, _ctx: &Ctx, case: &Value) -> Result<Vec<Violation>, String> {
        let spec: DistSpec = serde_json::from_value(case["spec"].clone()).map_err(|e| e.to_string())?;
        let seed = case["seed"].as_u64().unwrap_or(0);
        if let Some(v) = case["atom"].as_u64() {
            let obj = build_caught(&spec)?;
            let mut rng = SimRng::one_fault(seed, 0, Inject::High { bits: 24, value: v });
            rng.budget = 16;
            let r = guarded(|| obj.sample(&mut rng));
            println!("replay: {} top-24 bits {v:#x} -> {:?}", spec.label(), match &r {
                Caught::Ok(o) => o.show(),
                other => format!("{other:?}"),
            });
            let mut plain = SimRng::new(seed);
            let w = Inject::High { bits: 24, value: v }.apply(plain.word());
            let tags = support::word_tags(w).join(",");
            return Ok(match r {
                Caught::Ok(o) => match support::check(&spec, &o) {
                    Some((c, d)) => vec![Violation { class: c.into(), detail: d, sig: sig_for(&spec, c, tags), case: case.clone() }],
                    None if rng.pos != 1 => vec![Violation {
                        class: "not-single-draw".into(),
                        detail: format!("consumed {} words", rng.pos),
                        sig: sig_for(&spec, "not-single-draw", tags),
                        case: case.clone(),
                    }],
                    None => vec![],
                },
                Caught::Panic { msg, .. } => vec![Violation { class: "panic".into(), detail: msg, sig: sig_for(&spec, "panic", tags), case: case.clone() }],
                Caught::Budget(_) => vec![Violation { class: "word-budget".into(), detail: String::new(), sig: sig_for(&spec, "word-budget", tags), case: case.clone() }],
            });
        }
        let r = enumerate(&spec, seed)?;
        println!("replay: {} D = {:.4e}, bound = {:.4e}, sup|x f| = {:.4e}, atoms = {}", spec.label(), r.d, r.bound, r.sup_xf, r.distinct_atoms);
        Ok(judge(&spec, seed, &r))
    }
}
