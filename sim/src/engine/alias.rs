//! C08 — WeightedAliasIndex encodes and samples exactly the given weights.
//!
//! Setup invariants (error returns of `new`, `weights()` reconstruction) and the exact
//! sampling law: `sample()` reads a `Uniform<u32>` column and a `Uniform<W>` threshold,
//! i.e. two words.  For every column the first word is forced to the column's mid-cell
//! and the second word sweeps an exact lattice of 16*sum(w) mid-cell points (fault kind
//! L): index i must be returned exactly 16*n*w_i times.  Types whose draw is not one
//! word (u128/i128) and floats are tested statistically on seeded streams.

use super::wt::{Lit, Wt};
use crate::envelope::{below, u01};
use crate::registry::{WTy, ALL_WTY};
use crate::runner::{guarded, hash_key, mark_call, CaseResult, Caught, Ctx, Digest, Engine, Tier, Violation};
use crate::simrng::{lattice_word, mix, Fault, Inject, SimRng};
use crate::stats;
use crate::with_wty;
use rand_distr::weighted::{Error as WErr, WeightedAliasIndex};
use rand_distr::{Distribution, Uniform};
use serde::{Deserialize, Serialize};
use serde_json::{json, Value};
use std::collections::{BTreeMap, BTreeSet};

#[derive(Clone, Debug, Serialize, Deserialize)]
pub struct AliasCase {
    pub kind: String,
    pub wty: WTy,
    pub ws: Vec<Lit>,
    pub seed: u64,
}

pub struct AliasEngine;

fn err_name(e: &WErr) -> &'static str {
    match e {
        WErr::InvalidInput => "InvalidInput",
        WErr::InvalidWeight => "InvalidWeight",
        WErr::InsufficientNonZero => "InsufficientNonZero",
        WErr::Overflow => "Overflow",
        _ => "Other",
    }
}

#[derive(Default)]
pub struct AStats {
    pub vectors: u64,
    pub accepted: u64,
    pub rejected: BTreeMap<String, u64>,
    pub exact_law: u64,
    pub exact_evals: u64,
    pub stat_law: u64,
    pub samples: u64,
    pub words: u64,
    pub extra_word_runs: u64,
    pub adversarial: u64,
    /// largest L1(weights() - input) / (eps * sum) over the float vectors (f32, f64)
    pub worst_l1: [f64; 2],
    /// the same for vectors of at least 1000 entries
    pub worst_l1_long: [f64; 2],
    /// largest L1 error / aggregate bound
    pub worst_l1_ratio: [f64; 2],
}

fn lits<W: Wt>(m: &[W]) -> Vec<Lit> {
    let mut v: Vec<Lit> = m.iter().take(24).map(|w| w.lit()).collect();
    if m.len() > 24 {
        v.push(format!("..len{}", m.len()));
    }
    v
}

/// One weight vector: all C08 clauses.  Err = (class, detail).
pub fn check_vector<W: Wt>(lit_ws: &[Lit], seed: u64, st: &mut AStats, thorough: bool) -> Result<(), (String, String)>
where
    WeightedAliasIndex<W>: Distribution<usize>,
    Uniform<W>: Clone + std::fmt::Debug,
{
    let ws: Vec<W> = lit_ws.iter().map(|l| W::parse(l).ok_or(())).collect::<Result<_, _>>().map_err(|_| ("harness".to_string(), "bad literal".to_string()))?;
    st.vectors += 1;
    let n = ws.len();
    // ---- documented error conditions ---------------------------------------------
    let expect: Result<(), &str> = if n == 0 {
        Err("InvalidInput")
    } else {
        let maxw = W::max_val().div_u32(n as u32);
        if ws.iter().any(|&w| !(w >= W::zero_val() && w <= maxw)) {
            Err("InvalidWeight")
        } else if ws.iter().all(|&w| w == W::zero_val()) {
            Err("InsufficientNonZero")
        } else {
            Ok(())
        }
    };
    let got = match guarded(|| WeightedAliasIndex::<W>::new(ws.clone())) {
        Caught::Ok(r) => r,
        Caught::Panic { msg, loc } => return Err(("panic-new".into(), format!("new({:?}) panicked: {msg} @ {loc}", lits(&ws)))),
        Caught::Budget(_) => unreachable!(),
    };
    let alias = match (got, expect) {
        (Ok(a), Ok(())) => a,
        (Err(e), Err(x)) if err_name(&e) == x => {
            *st.rejected.entry(x.to_string()).or_insert(0) += 1;
            return Ok(());
        }
        (g, e) => {
            return Err((
                "model-mismatch(new)".into(),
                format!("new({:?}) returned {:?}, documented: {:?}", lits(&ws), g.map(|_| "Ok").map_err(|e| err_name(&e)), e),
            ))
        }
    };
    st.accepted += 1;
    let mut deferred: Option<(String, String)> = None;
    // ---- weights() reconstruction --------------------------------------------------
    let back = match guarded(|| alias.weights()) {
        Caught::Ok(b) => b,
        Caught::Panic { msg, loc } => return Err(("panic-weights".into(), format!("weights() of new({:?}) panicked: {msg} @ {loc}", lits(&ws)))),
        Caught::Budget(_) => unreachable!(),
    };
    if back.len() != n {
        return Err(("model-mismatch(weights)".into(), format!("weights() has {} entries, input {}", back.len(), n)));
    }
    // probabilities and tolerances are computed on weights scaled by the largest one, so
    // that vectors at the MAX/len corner do not overflow the oracle's own arithmetic
    let wmax: f64 = ws.iter().map(|w| w.to_f64()).fold(0.0, f64::max);
    let scaled: Vec<f64> = ws.iter().map(|w| w.to_f64() / wmax).collect();
    let sum_scaled: f64 = scaled.iter().sum();
    let eps = if W::TY == WTy::F32 { f32::EPSILON as f64 } else { f64::EPSILON };
    for i in 0..n {
        let ok = if W::IS_FLOAT {
            (back[i].to_f64() / wmax - scaled[i]).abs() <= (n as f64 + 4.0) * eps * sum_scaled
        } else {
            back[i] == ws[i]
        };
        if !ok && deferred.is_none() {
            // keep going: the sampling clauses of this vector are still checked, and a
            // sampling failure takes precedence in the report
            deferred = Some((
                "model-mismatch(weights)".to_string(),
                format!("weights()[{i}] = {} but the input was {} (input {:?})", back[i].lit(), ws[i].lit(), lits(&ws)),
            ));
        }
    }
    // ---- clone_from into a table built from other weights ---------------------------
    // (every field must be replaced: weights() of the destination is the source's)
    {
        let other_ws: Vec<W> = vec![W::parse(&"1".to_string()).unwrap_or(W::zero_val()); n % 5 + 1];
        if let Caught::Ok(Ok(mut other)) = guarded(|| WeightedAliasIndex::<W>::new(other_ws.clone())) {
            let r = guarded(|| {
                other.clone_from(&alias);
                other.weights()
            });
            match r {
                Caught::Ok(b2) => {
                    let same = b2.len() == back.len() && b2.iter().zip(back.iter()).all(|(x, y)| x.bits_eq(*y) || x == y);
                    if !same && deferred.is_none() {
                        deferred = Some((
                            "model-mismatch(weights)".to_string(),
                            format!("after other.clone_from(&table), other.weights() = {:?} but table.weights() = {:?} (input {:?})", lits(&b2), lits(&back), lits(&ws)),
                        ));
                    }
                    if format!("{:?}", other) != format!("{:?}", alias) && deferred.is_none() {
                        deferred = Some(("model-mismatch(weights)".to_string(), format!("clone_from result prints differently from its source (input {:?})", lits(&ws))));
                    }
                }
                Caught::Panic { msg, loc } => return Err(("panic-weights".into(), format!("clone_from + weights() of new({:?}) panicked: {msg} @ {loc}", lits(&ws)))),
                Caught::Budget(_) => unreachable!(),
            }
        }
    }
    if W::IS_FLOAT {
        let l1: f64 = (0..n).map(|i| (back[i].to_f64() / wmax - scaled[i]).abs()).sum::<f64>() / (eps * sum_scaled);
        let k = if W::TY == WTy::F32 { 0 } else { 1 };
        // aggregate bound ("agrees to rounding error", in units of eps * sum): 8 for the
        // final conversions, 2 log2(n) for the (pairwise) sum that every column is measured
        // against, and 2 n wmax / sum for the roundings of a large entry that donates to up
        // to n columns.  For vectors without a dominant entry this is ~(10 + 2 log2 n) eps,
        // far tighter than the per-entry worst case (n + 4) eps * sum used above.
        let bound = 8.0 + 2.0 * (n as f64).log2() + 2.0 * n as f64 / sum_scaled;
        if l1.is_finite() {
            st.worst_l1_ratio[k] = st.worst_l1_ratio[k].max(l1 / bound);
            if l1 > bound && deferred.is_none() {
                deferred = Some((
                    "model-mismatch(weights)".to_string(),
                    format!("weights() differs from the input by {l1:.1} eps*sum in L1 norm (bound {bound:.1}: 8 + 2 log2 n + 2 n wmax/sum); input {:?}", lits(&ws)),
                ));
            }
        }
        if l1.is_finite() {
            st.worst_l1[k] = st.worst_l1[k].max(l1);
            if n >= 1000 {
                st.worst_l1_long[k] = st.worst_l1_long[k].max(l1);
            }
        }
    }
    // ---- adversarial words: every column (up to 64) x extreme threshold words --------
    {
        let extremes: [u64; 8] = [!0, 0, !0 << 12, !0 << 40, 1 << 63, (1 << 63) - 1, !0 << 11, 1];
        for c in 0..(n as u64).min(64) {
            let w1 = lattice_word(c * (n as u64 / (n as u64).min(64)).max(1), n as u64);
            for &w2 in &extremes {
                let mut rng = SimRng::with_faults(seed, vec![Fault { pos: 0, inject: Inject::Word(w1) }, Fault { pos: 1, inject: Inject::Word(w2) }]);
                rng.budget = 1000;
                st.adversarial += 1;
                match guarded(|| alias.sample(&mut rng)) {
                    Caught::Ok(i) if i < n => {
                        if !W::IS_FLOAT && ws[i] == W::zero_val() {
                            return Err(("zero-weight-index".into(), format!("index {i} of weight 0 returned for column word {w1:#x} and threshold word {w2:#x}; weights {:?}", lits(&ws))));
                        }
                    }
                    Caught::Ok(i) => {
                        return Err(("out-of-support".into(), format!("sample() returned index {i} >= len {n} for column word {w1:#x} and threshold word {w2:#x}; weights {:?}", lits(&ws))))
                    }
                    Caught::Panic { msg, loc } => {
                        return Err(("panic-sample".into(), format!("sample() of new({:?}) panicked for column word {w1:#x} and threshold word {w2:#x}: {msg} @ {loc}", lits(&ws))))
                    }
                    Caught::Budget(_) => return Err(("word-budget".into(), "sample() exceeded 1000 words".into())),
                }
                st.words += rng.pos;
            }
        }
    }
    // ---- sampling law ----------------------------------------------------------------
    let sum_u = if W::IS_FLOAT { None } else { ws.iter().try_fold(0u128, |a, w| a.checked_add(w.as_u128()?)) };
    let limit: u128 = if thorough { 1 << 20 } else { 1 << 16 };
    let exact = match sum_u {
        Some(s) => W::TY.one_word() && s <= 4096 && (n as u128) * s <= limit,
        None => false,
    };
    if exact {
        let total = sum_u.unwrap() as u64;
        let m2 = 16 * total;
        let sum_w = W::from_u128(total as u128).unwrap();
        // harness self-test of the assumption about rand's Uniform<W> map: sweeping the
        // lattice through Uniform::new(0, sum) alone must hit every value exactly 16 times
        let uni = Uniform::<W>::new(W::zero_val(), sum_w).map_err(|e| ("harness".to_string(), format!("Uniform::new: {e:?}")))?;
        let mut cell = vec![0u64; total as usize];
        for j in 0..m2 {
            let mut rng = SimRng::one_fault(seed, 0, Inject::Word(lattice_word(j, m2)));
            let v = uni.sample(&mut rng).as_u128().unwrap() as usize;
            cell[v] += 1;
        }
        if cell.iter().any(|&c| c != 16) {
            return Err(("harness".into(), format!("lattice assumption about Uniform<{:?}> does not hold for range {total}", W::TY)));
        }
        let mut counts = vec![0u64; n];
        let mut extra = 0u64;
        let alias_clone = alias.clone();
        for c in 0..n as u64 {
            mark_call(c);
            let w1 = lattice_word(c, n as u64);
            for j in 0..m2 {
                let mut rng = SimRng::with_faults(
                    seed,
                    vec![Fault { pos: 0, inject: Inject::Word(w1) }, Fault { pos: 1, inject: Inject::Word(lattice_word(j, m2)) }],
                );
                rng.budget = 64;
                // odd columns are sampled through a clone (a clone must be the same sampler)
                let target = if c % 2 == 1 { &alias_clone } else { &alias };
                match guarded(|| target.sample(&mut rng)) {
                    Caught::Ok(i) if i < n => counts[i] += 1,
                    Caught::Ok(i) => return Err(("out-of-support".into(), format!("index {i} >= len {n} for {:?}", lits(&ws)))),
                    Caught::Panic { msg, loc } => return Err(("panic-sample".into(), format!("sample() of new({:?}) panicked: {msg} @ {loc}", lits(&ws)))),
                    Caught::Budget(_) => return Err(("word-budget".into(), "sample() exceeded 64 words".into())),
                }
                if rng.pos != 2 {
                    extra += 1;
                }
                st.words += rng.pos;
            }
        }
        st.exact_law += 1;
        st.exact_evals += n as u64 * m2;
        st.extra_word_runs += extra;
        for i in 0..n {
            let want = 16 * n as u64 * ws[i].as_u128().unwrap() as u64;
            if counts[i].abs_diff(want) > extra {
                return Err((
                    "law(exact-lattice)".into(),
                    format!(
                        "index {i} (weight {}) was returned for {} of the {} (column, threshold) lattice points, expected exactly {want}; weights {:?}",
                        ws[i].lit(),
                        counts[i],
                        n as u64 * m2,
                        lits(&ws)
                    ),
                ));
            }
        }
        return match deferred {
            Some(e) => Err(e),
            None => Ok(()),
        };
    }
    // statistical
    // short vectors come from the exhaustive sweep (hundreds of thousands of them at the
    // thorough tier): their few cells need far fewer samples than a long random vector
    let nsamp: u64 = match (thorough, n <= 6) {
        (true, true) => 40_000,
        (true, false) => 4_000_000,
        (false, true) => 20_000,
        (false, false) => 200_000,
    };
    let run = |seed: u64, nsamp: u64| -> Result<Vec<u64>, (String, String)> {
        let mut counts = vec![0u64; n];
        let mut rng = SimRng::new(seed);
        for k in 0..nsamp {
            if k & 0xfff == 0 {
                mark_call(k);
            }
            rng.budget = rng.pos + 1000;
            match guarded(|| alias.sample(&mut rng)) {
                Caught::Ok(i) if i < n => counts[i] += 1,
                Caught::Ok(i) => return Err(("out-of-support".into(), format!("index {i} >= len {n}"))),
                Caught::Panic { msg, loc } => return Err(("panic-sample".into(), format!("sample() of new({:?}) panicked: {msg} @ {loc}", lits(&ws)))),
                Caught::Budget(_) => return Err(("word-budget".into(), "sample() exceeded 1000 words".into())),
            }
        }
        Ok(counts)
    };
    let judge = |counts: &[u64], nsamp: u64, alpha: f64| -> Option<String> {
        let nb = n.min(256);
        let per = n.div_ceil(nb);
        for b in 0..nb {
            let lo = b * per;
            let hi = ((b + 1) * per).min(n);
            if lo >= hi {
                break;
            }
            let c: u64 = counts[lo..hi].iter().sum();
            let p: f64 = scaled[lo..hi].iter().sum::<f64>() / sum_scaled;
            let slack = if W::IS_FLOAT { 1e-6 + 4.0 * n as f64 * eps } else { 1e-12 };
            let mg = stats::count_margin(c as f64, nsamp as f64, p - slack, p + slack, alpha / nb as f64);
            if mg > 1.0 {
                return Some(format!("indices {lo}..{hi}: {c} of {nsamp} samples, expected probability {p:.6e} (margin {mg:.2})"));
            }
        }
        None
    };
    let c1 = run(seed, nsamp)?;
    st.stat_law += 1;
    st.samples += nsamp;
    if !W::IS_FLOAT {
        for (i, &c) in c1.iter().enumerate() {
            if c > 0 && ws[i] == W::zero_val() {
                return Err(("zero-weight-index".into(), format!("index {i} of weight 0 returned {c} times; weights {:?}", lits(&ws))));
            }
        }
    }
    if let Some(msg) = judge(&c1, nsamp, stats::ALPHA_SCREEN) {
        let c2 = run(mix(&[seed, 0xC0F1]), 4 * nsamp)?;
        st.samples += 4 * nsamp;
        if let Some(msg2) = judge(&c2, 4 * nsamp, stats::ALPHA_CONFIRM) {
            return Err(("law(cell)".into(), format!("screen: {msg}; confirmation on an independent stream: {msg2}; weights {:?}", lits(&ws))));
        }
    }
    match deferred {
        Some(e) => Err(e),
        None => Ok(()),
    }
}

fn check_for(wty: WTy, ws: &[Lit], seed: u64, st: &mut AStats, thorough: bool) -> Result<(), (String, String)> {
    with_wty!(wty, check_vector, ws, seed, st, thorough)
}

/// per-type alphabet of the exhaustive small-vector sweep, for vectors of length `len`
fn small_alphabet<W: Wt>(len: usize) -> Vec<Lit> {
    let mut a: Vec<Lit> = vec!["0".into(), "1".into(), "2".into()];
    if W::IS_FLOAT {
        a.push("0.5".into());
        let m = W::max_val().div_u32(len as u32);
        a.push(m.lit());
        a.push("nan".into());
        a.push("-1".into());
        // just above MAX/len: the next float
        let up = W::from_f64v(m.to_f64() * (1.0 + 4.0 * if W::TY == WTy::F32 { 6e-8 } else { 1.2e-16 }));
        a.push(up.lit());
    } else {
        let m = W::max_val().div_u32(len as u32).as_u128().unwrap();
        a.push(m.to_string());
        if let Some(x) = m.checked_add(1).and_then(W::from_u128) {
            a.push(x.lit());
        }
        if W::SIGNED {
            a.push("-1".into());
        }
    }
    a.retain(|l| W::parse(l).is_some());
    a.dedup();
    a
}

fn nth_small_vector<W: Wt>(mut k: u64, max_len: usize) -> Option<Vec<Lit>> {
    // enumerate lengths 0..=max_len, within a length all words over the alphabet
    for len in 0..=max_len {
        let a = small_alphabet::<W>(len.max(1));
        let count = (a.len() as u64).pow(len as u32);
        if k < count {
            let mut v = Vec::with_capacity(len);
            for _ in 0..len {
                v.push(a[(k % a.len() as u64) as usize].clone());
                k /= a.len() as u64;
            }
            return Some(v);
        }
        k -= count;
    }
    None
}
fn small_total<W: Wt>(max_len: usize) -> u64 {
    (0..=max_len).map(|len| (small_alphabet::<W>(len.max(1)).len() as u64).pow(len as u32)).sum()
}
fn small_total_for(wty: WTy, max_len: usize) -> u64 {
    with_wty!(wty, small_total, max_len)
}
fn nth_small_for(wty: WTy, k: u64, max_len: usize) -> Option<Vec<Lit>> {
    with_wty!(wty, nth_small_vector, k, max_len)
}

fn random_vector<W: Wt>(r: &mut SimRng) -> Vec<Lit> {
    let len = match below(r, 10) {
        0 => 1 + below(r, 3) as usize,
        1..=5 => 2 + below(r, 30) as usize,
        6..=8 => 30 + below(r, 300) as usize,
        _ => 1000 + below(r, 9001) as usize,
    };
    // narrow integer types: lengths above MAX (MAX/len is then 0: any non-zero weight is
    // invalid, all-zero is InsufficientNonZero)
    let type_max = W::max_val().to_f64();
    // narrow integer types at the boundary len = MAX-1, MAX, MAX+1: MAX/len is 1, 1, 0
    if !W::IS_FLOAT && type_max < 70_000.0 && below(r, 6) == 0 {
        let len = (type_max as usize + below(r, 3) as usize).saturating_sub(1).max(1);
        let all_zero = below(r, 8) == 0;
        let hot = below(r, len as u64) as usize;
        return (0..len).map(|i| if !all_zero && (i == hot || below(r, 3) == 0) { "1".to_string() } else { "0".to_string() }).collect();
    }
    // long periodic float vectors: rounding that drifts instead of averaging out
    if W::IS_FLOAT && below(r, 8) == 0 {
        let len = 4000 + below(r, 6001) as usize;
        let pats: [&[f64]; 5] = [&[1.1, 3.3], &[0.1, 0.7, 2.9], &[3.3, 1.1, 1.1, 1.1], &[0.3, 0.3, 5.7], &[1e-3, 2.2, 1.7, 0.9]];
        let pat = pats[below(r, pats.len() as u64) as usize];
        return (0..len).map(|i| W::from_f64v(pat[i % pat.len()]).lit()).collect();
    }
    if !W::IS_FLOAT && type_max < 70_000.0 && below(r, 4) == 0 {
        let len = type_max as usize + 1 + below(r, 300) as usize;
        let all_zero = below(r, 5) == 0;
        let hot = below(r, len as u64) as usize;
        return (0..len).map(|i| if !all_zero && (i == hot || below(r, 50) == 0) { "1".to_string() } else { "0".to_string() }).collect();
    }
    let mode = below(r, 6);
    let maxw = W::max_val().div_u32(len as u32);
    let maxf = maxw.to_f64();
    (0..len)
        .map(|i| {
            if W::IS_FLOAT {
                let x = match mode {
                    0 => 1.0,
                    1 => {
                        if i == 0 {
                            1e6
                        } else {
                            1e-3 * u01(r)
                        }
                    }
                    2 => {
                        if below(r, 3) == 0 {
                            0.0
                        } else {
                            u01(r)
                        }
                    }
                    3 => 2.0_f64.powi(below(r, 12) as i32 - 6),
                    4 => u01(r) * 10.0_f64.powi(below(r, 8) as i32 - 4),
                    _ => {
                        if i == 0 {
                            1.0
                        } else {
                            0.0
                        }
                    }
                };
                W::from_f64v(x).lit()
            } else {
                let small_cap = maxf.min(64.0).max(1.0);
                let x: u128 = match mode {
                    0 => 1,
                    1 => {
                        if i == 0 {
                            maxw.as_u128().unwrap()
                        } else {
                            below(r, 3) as u128
                        }
                    }
                    2 => {
                        if below(r, 3) == 0 {
                            0
                        } else {
                            below(r, small_cap as u64 + 1) as u128
                        }
                    }
                    3 => {
                        let e = below(r, 7) as u32;
                        let b = (1u128 << e).min(maxw.as_u128().unwrap());
                        match below(r, 3) {
                            0 => b.saturating_sub(1),
                            1 => b,
                            _ => (b + 1).min(maxw.as_u128().unwrap()),
                        }
                    }
                    4 => below(r, 8) as u128,
                    _ => {
                        if i == len / 2 {
                            1
                        } else {
                            0
                        }
                    }
                };
                W::from_u128(x.min(maxw.as_u128().unwrap())).unwrap().lit()
            }
        })
        .collect()
}
fn random_for(wty: WTy, r: &mut SimRng) -> Vec<Lit> {
    with_wty!(wty, random_vector, r)
}

fn shrink(wty: WTy, ws: &[Lit], seed: u64, class: &str, thorough: bool) -> (Vec<Lit>, u32) {
    let fails = |v: &[Lit]| {
        let mut st = AStats::default();
        matches!(check_for(wty, v, seed, &mut st, thorough), Err((c, _)) if c == class)
    };
    let mut best = ws.to_vec();
    let mut steps = 0;
    // halve, then drop single entries
    loop {
        let mut progressed = false;
        if best.len() > 4 {
            for half in [best[..best.len() / 2].to_vec(), best[best.len() / 2..].to_vec()] {
                if fails(&half) {
                    best = half;
                    steps += 1;
                    progressed = true;
                    break;
                }
            }
        }
        if !progressed {
            break;
        }
    }
    if best.len() <= 256 {
        let mut i = best.len();
        while i > 0 {
            i -= 1;
            if best.len() <= 1 {
                break;
            }
            let mut c = best.clone();
            c.remove(i);
            if fails(&c) {
                best = c;
                steps += 1;
            }
        }
        for i in 0..best.len() {
            for simple in ["0", "1"] {
                if best[i] != simple {
                    let mut c = best.clone();
                    c[i] = simple.into();
                    if fails(&c) {
                        best = c;
                        steps += 1;
                        break;
                    }
                }
            }
        }
    }
    (best, steps)
}

/// parameter-regime tag for known-finding matching
fn regime_tag<W: Wt>(ws: &[Lit]) -> String {
    let n = ws.len().max(1);
    let lim = W::max_val().div_u32(n as u32).to_f64() / 4.0;
    if W::IS_FLOAT && ws.iter().filter_map(|l| W::parse(l)).any(|w| w.to_f64() >= lim) {
        "float-weight>=MAX/(4len)".into()
    } else {
        String::new()
    }
}
fn regime_for(wty: WTy, ws: &[Lit]) -> String {
    with_wty!(wty, regime_tag, ws)
}

struct Plan {
    small_max_len: usize,
    small_chunks: usize,
    random_batches: usize,
    random_per_batch: usize,
}
fn plan(ctx: &Ctx) -> Plan {
    match ctx.tier {
        Tier::Quick => Plan { small_max_len: 4, small_chunks: 1, random_batches: 3, random_per_batch: 40 },
        Tier::Thorough => Plan { small_max_len: 6, small_chunks: 8, random_batches: 24, random_per_batch: 200 },
    }
}

impl Engine for AliasEngine {
    fn property(&self) -> &'static str {
        "C08"
    }
    fn level(&self) -> &'static str {
        "fault_enumeration"
    }
    fn rule(&self) -> String {
        "for each of the 13 weight types: (a) exhaustively every vector of length <= 4 (quick) / <= 6 (thorough) over {0, 1, 2, MAX/len, MAX/len+1, negative, NaN, 0.5}; (b) seeded random vectors up to 10^4 entries with adversarial magnitude mixes (one huge + many tiny, all equal, single non-zero, powers of two +-1).  Each vector: documented error return of new(), weights() reconstruction, and the sampling law -- exact (two-word lattice: every column x 16*sum(w) threshold points, counts must equal 16*n*w_i) when the draw is one word and sum(w) <= 4096, statistical otherwise.  evaluations = vectors checked + sample() calls; distinct_nontrivial = distinct (type, vector) pairs accepted by new() whose law was checked.".into()
    }
    fn assumptions(&self) -> Vec<String> {
        vec![
            "exact lattice relies on rand 0.10's Lemire Uniform<int>; re-validated at run time by sweeping Uniform::new(0,sum) alone over the same lattice".into(),
            "u128/i128 and float weights: statistical (Chernoff 1e-7 screen + 1e-9 confirmation on an independent stream)".into(),
        ]
    }
    fn num_cases(&self, ctx: &Ctx) -> usize {
        let p = plan(ctx);
        ALL_WTY.len() * (p.small_chunks + p.random_batches)
    }
    fn run_case(&self, ctx: &Ctx, index: usize) -> CaseResult {
        let p = plan(ctx);
        let per_type = p.small_chunks + p.random_batches;
        let wty = ALL_WTY[index / per_type];
        let sub = index % per_type;
        let thorough = ctx.tier == Tier::Thorough;
        let mut res = CaseResult::new(index);
        let mut st = AStats::default();
        let mut keys: BTreeSet<u64> = BTreeSet::new();
        let mut d = Digest::new();
        let mut seen: BTreeSet<String> = BTreeSet::new();
        let mut vectors: Vec<Vec<Lit>> = Vec::new();
        if sub < p.small_chunks {
            let total = small_total_for(wty, p.small_max_len);
            let lo = total * sub as u64 / p.small_chunks as u64;
            let hi = total * (sub as u64 + 1) / p.small_chunks as u64;
            for k in lo..hi {
                vectors.push(nth_small_for(wty, k, p.small_max_len).unwrap());
            }
            res.stat_sum("exhaustive_small_vectors", (hi - lo) as f64);
        } else {
            let mut r = SimRng::new(mix(&[ctx.seed, 0xC08, index as u64]));
            for _ in 0..p.random_per_batch {
                vectors.push(random_for(wty, &mut r));
            }
            res.stat_sum("random_vectors", p.random_per_batch as f64);
        }
        for (vi, ws) in vectors.iter().enumerate() {
            let seed = mix(&[ctx.seed, index as u64, vi as u64]);
            let before = st.accepted;
            let out = check_for(wty, ws, seed, &mut st, thorough);
            if st.accepted > before {
                keys.insert(hash_key(&[&format!("{wty:?}"), &format!("{ws:?}")]));
            }
            d.add(st.accepted);
            d.add(st.exact_evals);
            if let Err((class, detail)) = out {
                d.add_str(&class);
                if class == "harness" {
                    res.notes.push(format!("harness: {detail}"));
                    continue;
                }
                if !seen.insert(format!("{class}|{}", regime_for(wty, ws))) {
                    continue;
                }
                let (min_ws, steps) = shrink(wty, ws, seed, &class, thorough);
                let mut st2 = AStats::default();
                let detail2 = match check_for(wty, &min_ws, seed, &mut st2, thorough) {
                    Err((_, d2)) => d2,
                    Ok(()) => detail.clone(),
                };
                let mut sig = BTreeMap::new();
                sig.insert("family".into(), "Alias".into());
                sig.insert("scalar".into(), format!("{wty:?}").to_lowercase());
                sig.insert("class".into(), class.clone());
                sig.insert("regime".into(), regime_for(wty, &min_ws));
                let case = json!({"kind": "alias-vector", "wty": wty, "ws": min_ws, "seed": seed, "minimised_from": {"len": ws.len(), "shrink_steps": steps}});
                res.violations.push(Violation { class, detail: format!("WeightedAliasIndex<{wty:?}>: {detail2}"), sig, case });
            }
        }
        res.evaluations = st.vectors + st.exact_evals + st.samples + st.adversarial;
        res.sim_words = st.words;
        res.stat_sum("vectors", st.vectors as f64);
        res.stat_sum("accepted_by_new", st.accepted as f64);
        for (k, v) in &st.rejected {
            res.stat_sum(&format!("rejected:{k}"), *v as f64);
        }
        res.stat_sum("exact_law_vectors", st.exact_law as f64);
        res.stat_sum("exact_lattice_points", st.exact_evals as f64);
        res.stat_sum("statistical_law_vectors", st.stat_law as f64);
        res.stat_sum("runs_needing_a_third_word", st.extra_word_runs as f64);
        res.stat_sum("adversarial_two_word_runs", st.adversarial as f64);
        res.stat_max("float_weights_L1_error_over_aggregate_bound:f32", st.worst_l1_ratio[0]);
        res.stat_max("float_weights_L1_error_over_aggregate_bound:f64", st.worst_l1_ratio[1]);
        res.stat_max("float_weights_L1_error_over_eps_sum:f32", st.worst_l1[0]);
        res.stat_max("float_weights_L1_error_over_eps_sum:f64", st.worst_l1[1]);
        res.stat_max("float_weights_L1_error_over_eps_sum(len>=1000):f32", st.worst_l1_long[0]);
        res.stat_max("float_weights_L1_error_over_eps_sum(len>=1000):f64", st.worst_l1_long[1]);
        res.inj("F1-two-words", st.adversarial);
        res.fired("F1-two-words", st.adversarial);
        res.inj("L-lattice(2 words)", st.exact_evals);
        res.fired("L-lattice(2 words)", st.exact_evals);
        if sub == p.small_chunks {
            res.samples.push(json!({"wty": wty, "random_vector": vectors[0].iter().take(16).collect::<Vec<_>>(), "len": vectors[0].len()}));
        }
        res.keys = keys.into_iter().collect();
        res.digest = d.0;
        res
    }
    fn exhaustive(&self, _ctx: &Ctx) -> bool {
        false
    }
    fn replay(&self, ctx: &Ctx, case: &Value) -> Result<Vec<Violation>, String> {
        let c: AliasCase = serde_json::from_value(case.clone()).map_err(|e| format!("bad replay case: {e}"))?;
        let mut st = AStats::default();
        println!("replay: WeightedAliasIndex<{:?}>::new({:?}) seed {}", c.wty, c.ws, c.seed);
        match check_for(c.wty, &c.ws, c.seed, &mut st, ctx.tier == Tier::Thorough) {
            Ok(()) => {
                println!("replay: outcome ok");
                Ok(vec![])
            }
            Err((class, detail)) => {
                println!("replay: outcome class={class}: {detail}");
                let mut sig = BTreeMap::new();
                sig.insert("family".into(), "Alias".into());
                sig.insert("scalar".into(), format!("{:?}", c.wty).to_lowercase());
                sig.insert("class".into(), class.clone());
                sig.insert("regime".into(), regime_for(c.wty, &c.ws));
                Ok(vec![Violation { class, detail, sig, case: case.clone() }])
            }
        }
    }
}
