#![allow(dead_code)]
//! verif-sim — deterministic simulation with fault injection at the RNG seam of
//! rand_distr.  See /verif/DESIGN.md.
//!
//!   verif-sim run <Cxx> [--tier quick|thorough] [--seed N] [--profile NAME]
//!   verif-sim worker <Cxx> ...            (internal: supervised worker process)
//!   verif-sim replay <file>
//!   verif-sim selftest determinism|oracle|all
//!
//! Exit codes: 0 property held on everything explored, 1 violation, 2 harness error.

mod engine;
mod envelope;
mod findings;
mod lawcore;
mod registry;
mod runner;
mod serde_fmt;
mod simrng;
mod stats;
mod support;

use runner::{Ctx, Tier};

fn arg_after(args: &[String], flag: &str) -> Option<String> {
    args.iter().position(|a| a == flag).and_then(|i| args.get(i + 1)).cloned()
}

fn ctx_from(args: &[String], property: &str) -> Ctx {
    let tier = arg_after(args, "--tier").or_else(|| std::env::var("VERIF_TIER").ok()).unwrap_or_else(|| "quick".into());
    let tier = if tier.starts_with('t') { Tier::Thorough } else { Tier::Quick };
    let seed = arg_after(args, "--seed")
        .or_else(|| std::env::var("VERIF_SEED").ok())
        .and_then(|s| s.trim().parse::<u64>().ok())
        .unwrap_or(20261002);
    let profile = arg_after(args, "--profile").unwrap_or_else(|| {
        if cfg!(debug_assertions) {
            "checked".into()
        } else {
            "release".into()
        }
    });
    Ctx { property: property.to_string(), tier, seed, profile }
}

fn main() {
    let args: Vec<String> = std::env::args().collect();
    let code = real_main(&args);
    std::process::exit(code);
}

fn real_main(args: &[String]) -> i32 {
    if args.len() < 2 {
        eprintln!("usage: verif-sim run|worker|replay|selftest ...");
        return 2;
    }
    match args[1].as_str() {
        "run" | "worker" => {
            let Some(prop) = args.get(2) else {
                eprintln!("missing property id");
                return 2;
            };
            let Some(engine) = engine::engine_for(prop) else {
                eprintln!("HARNESS-ERROR: no engine for property {prop}");
                return 2;
            };
            let ctx = ctx_from(args, prop);
            if args[1] == "worker" {
                runner::worker_main(&*engine, &ctx)
            } else {
                runner::install_panic_hook();
                runner::run_property(&*engine, &ctx)
            }
        }
        "replay" => {
            let Some(path) = args.get(2) else {
                eprintln!("missing replay file");
                return 2;
            };
            replay(path)
        }
        "case" => {
            // debugging aid: run one case in-process and print its result
            let Some(prop) = args.get(2) else { return 2 };
            let Some(engine) = engine::engine_for(prop) else { return 2 };
            let ctx = ctx_from(args, prop);
            runner::install_panic_hook();
            let idx: usize = args.get(3).and_then(|s| s.parse().ok()).unwrap_or(0);
            let t = std::time::Instant::now();
            let r = engine.run_case(&ctx, idx);
            println!("{}", serde_json::to_string_pretty(&r).unwrap());
            println!("elapsed {:.3}s", t.elapsed().as_secs_f64());
            0
        }
        "isolate" => {
            runner::install_panic_hook();
            engine::hist::isolate_main()
        }
        "hist-exec" => {
            runner::install_panic_hook();
            engine::hist::hist_exec_main()
        }
        "field-cover" => {
            // maintenance aid: the parameter sets the field-value coverage search adds
            runner::install_panic_hook();
            for s in engine::hist::field_cover_specs(ctx_from(&args, "C15").seed) {
                println!("{}", s.label());
            }
            0
        }
        "describe" => {
            let Some(prop) = args.get(2) else { return 2 };
            let Some(engine) = engine::engine_for(prop) else { return 2 };
            let ctx = ctx_from(args, prop);
            let idx: usize = args.get(3).and_then(|s| s.parse().ok()).unwrap_or(0);
            println!("{}", engine.describe(&ctx, idx));
            0
        }
        "list-cases" => {
            let Some(prop) = args.get(2) else { return 2 };
            let Some(engine) = engine::engine_for(prop) else { return 2 };
            let ctx = ctx_from(args, prop);
            println!("{}", engine.num_cases(&ctx));
            0
        }
        "selftest" => selftest(args.get(2).map(|s| s.as_str()).unwrap_or("all"), args),
        _ => {
            eprintln!("unknown command {}", args[1]);
            2
        }
    }
}

fn replay(path: &str) -> i32 {
    let text = match std::fs::read_to_string(path) {
        Ok(t) => t,
        Err(e) => {
            eprintln!("HARNESS-ERROR: cannot read {path}: {e}");
            return 2;
        }
    };
    let v: serde_json::Value = match serde_json::from_str(&text) {
        Ok(v) => v,
        Err(e) => {
            eprintln!("HARNESS-ERROR: bad replay file: {e}");
            return 2;
        }
    };
    let prop = v["property"].as_str().unwrap_or("").to_string();
    let Some(engine) = engine::engine_for(&prop) else {
        eprintln!("HARNESS-ERROR: no engine for property {prop}");
        return 2;
    };
    let want_class = v["violation"]["class"].as_str().unwrap_or("").to_string();
    // a hang must be observed from outside: re-run in a supervised child
    if std::env::var("VERIF_REPLAY_CHILD").is_err() {
        let exe = std::env::current_exe().unwrap();
        let out = std::process::Command::new(exe)
            .arg("replay")
            .arg(path)
            .env("VERIF_REPLAY_CHILD", "1")
            .output();
        return match out {
            Ok(o) => {
                let so = String::from_utf8_lossy(&o.stdout);
                print!("{so}");
                eprint!("{}", String::from_utf8_lossy(&o.stderr));
                let code = o.status.code();
                if so.lines().any(|l| l.starts_with("H ")) || code == Some(3) {
                    println!("replay: outcome class=hang (no progress in {} CPU-s)", runner::hang_secs());
                    if want_class == "hang" {
                        println!("VIOLATION property={prop} replay={path}");
                        1
                    } else {
                        println!("replay: expected class {want_class}, got hang");
                        1
                    }
                } else if code.is_none() {
                    println!("replay: child died from a signal: outcome class=crash");
                    println!("VIOLATION property={prop} replay={path}");
                    1
                } else {
                    code.unwrap_or(2)
                }
            }
            Err(e) => {
                eprintln!("HARNESS-ERROR: {e}");
                2
            }
        };
    }
    runner::install_panic_hook();
    let tier = if v["tier"].as_str() == Some("thorough") { Tier::Thorough } else { Tier::Quick };
    let ctx = Ctx {
        property: prop.clone(),
        tier,
        seed: v["verif_seed"].as_u64().unwrap_or(20261002),
        profile: v["profile"].as_str().unwrap_or("checked").to_string(),
    };
    runner::set_hang_secs(engine.hang_secs());
    runner::set_case_secs(engine.case_secs(&ctx));
    runner::start_watchdog();
    // a case that could only be identified by its index (worker crash without a call
    // number, case budget exceeded): run that whole case again under the watchdog
    let whole_case = v["case"]["rerun_case_index"].as_u64().filter(|_| v["case"]["kind"].is_null());
    let outcome = match whole_case {
        Some(idx) => {
            println!("replay: re-running case {idx} ({}) of {prop} under the watchdog", engine.describe(&ctx, idx as usize));
            runner::CASE_SEQ.fetch_add(1, std::sync::atomic::Ordering::Relaxed);
            Ok(engine.run_case(&ctx, idx as usize).violations)
        }
        None => engine.replay(&ctx, &v["case"]),
    };
    match outcome {
        Err(e) => {
            eprintln!("HARNESS-ERROR: {e}");
            2
        }
        Ok(vs) => {
            if vs.iter().any(|x| x.class == want_class) {
                println!("VIOLATION property={prop} replay={path}");
                1
            } else if !vs.is_empty() {
                println!(
                    "replay: a different violation class occurred: {:?} (file says {want_class})",
                    vs.iter().map(|x| x.class.clone()).collect::<Vec<_>>()
                );
                println!("VIOLATION property={prop} replay={path}");
                1
            } else {
                println!("replay: violation not reproduced (class {want_class})");
                0
            }
        }
    }
}

/// `selftest determinism`: many VERIF_SEED values, every engine, each run twice in
/// separate sets of worker processes -- once with 1 worker and once with 16 -- and the
/// digests of the full event logs must agree pairwise.
fn selftest_determinism(args: &[String]) -> i32 {
    let n_seeds: u64 = arg_after(args, "--seeds").and_then(|s| s.parse().ok()).unwrap_or(24);
    let n_cases: usize = arg_after(args, "--cases").and_then(|s| s.parse().ok()).unwrap_or(24);
    let base: u64 = std::env::var("VERIF_SEED").ok().and_then(|s| s.parse().ok()).unwrap_or(20261002);
    let props = engine::ALL_PROPS;
    let mut bad = 0;
    let mut runs = 0;
    for prop in props {
        let Some(engine) = engine::engine_for(prop) else { continue };
        // heavy engines: fewer seeds
        let seeds = if matches!(*prop, "C03" | "C05" | "C01" | "C02" | "C11" | "C12" | "C13" | "C06") { (n_seeds / 8).max(2) } else { n_seeds };
        for k in 0..seeds {
            let ctx = Ctx { property: prop.to_string(), tier: Tier::Quick, seed: base + 1000 * k + 7, profile: "selftest".into() };
            let total = engine.num_cases(&ctx);
            // a spread of cases, not just the first ones
            let step = (total / n_cases.max(1)).max(1);
            let only: Vec<usize> = (0..total).step_by(step).take(n_cases).collect();
            runner::set_hang_secs(engine.hang_secs());
            let mut digests = Vec::new();
            for workers in ["1", "16", "5"] {
                // SAFETY-free: set_var before any thread of this process is spawned by supervise
                std::env::set_var("VERIF_WORKERS", workers);
                let out = runner::supervise(&ctx, total, Some(only.clone()));
                if !out.harness_errors.is_empty() {
                    eprintln!("HARNESS-ERROR: {prop} seed {}: {:?}", ctx.seed, out.harness_errors);
                    bad += 1;
                }
                digests.push(runner::run_digest(&out.results));
                runs += 1;
            }
            let ok = digests.iter().all(|d| *d == digests[0]);
            if !ok {
                eprintln!("NONDETERMINISM: {prop} seed {} digests {:x?}", ctx.seed, digests);
                bad += 1;
            }
        }
        println!("selftest determinism: {prop}: {} seeds x {} cases x workers {{1,16,5}}: {}", seeds, n_cases, if bad == 0 { "identical digests" } else { "MISMATCH" });
    }
    println!("selftest determinism: {runs} supervised runs, {bad} problems");
    if bad == 0 {
        0
    } else {
        2
    }
}

fn selftest(what: &str, args: &[String]) -> i32 {
    match what {
        "determinism" => selftest_determinism(args),
        "oracle" => match vorac::selftest() {
            Ok(s) => {
                print!("{s}");
                0
            }
            Err(e) => {
                eprintln!("HARNESS-ERROR: oracle self-test failed: {e}");
                2
            }
        },
        "all" => {
            let a = selftest("oracle", args);
            let b = selftest_determinism(args);
            a.max(b)
        }
        _ => {
            eprintln!("selftest {what}: not implemented yet");
            2
        }
    }
}
