//! Two self-describing formats used for the restart fault (F7):
//!   * `Fmt::Json` — serde_json text (cannot carry ±inf / NaN: those become `null`)
//!   * `Fmt::Val`  — an in-harness self-describing value tree with a tag-length-value
//!     byte encoding, lossless for every float bit pattern and for 128-bit integers.

use serde::de::{self, DeserializeOwned, DeserializeSeed, EnumAccess, MapAccess, SeqAccess, VariantAccess, Visitor};
use serde::ser::{self, Serialize};
use std::fmt;

#[derive(Clone, Copy, Debug, PartialEq, Eq, serde::Serialize, serde::Deserialize)]
pub enum Fmt {
    Json,
    Val,
}

pub fn to_bytes<T: Serialize>(fmt: Fmt, v: &T) -> Result<Vec<u8>, String> {
    match fmt {
        Fmt::Json => serde_json::to_vec(v).map_err(|e| e.to_string()),
        Fmt::Val => {
            let val = v.serialize(ValSer).map_err(|e| e.0)?;
            let mut out = Vec::new();
            encode(&val, &mut out);
            Ok(out)
        }
    }
}

pub fn from_bytes<T: DeserializeOwned>(fmt: Fmt, b: &[u8]) -> Result<T, String> {
    match fmt {
        Fmt::Json => serde_json::from_slice(b).map_err(|e| e.to_string()),
        Fmt::Val => {
            let mut pos = 0;
            let val = decode(b, &mut pos)?;
            if pos != b.len() {
                return Err("trailing bytes".into());
            }
            T::deserialize(ValDe(val)).map_err(|e| e.0)
        }
    }
}

/// Does a `Fmt::Val` encoding contain a float that is not finite?
pub fn has_nonfinite(b: &[u8]) -> bool {
    fn walk(v: &Value) -> bool {
        match v {
            Value::F32(x) => !f32::from_bits(*x).is_finite(),
            Value::F64(x) => !f64::from_bits(*x).is_finite(),
            Value::Some(x) | Value::Variant(_, x) => walk(x),
            Value::Seq(xs) => xs.iter().any(walk),
            Value::Map(xs) => xs.iter().any(|(k, x)| walk(k) || walk(x)),
            _ => false,
        }
    }
    let mut pos = 0;
    decode(b, &mut pos).map(|v| walk(&v)).unwrap_or(false)
}

#[derive(Clone, Debug, PartialEq)]
pub enum Value {
    Unit,
    Bool(bool),
    I(i128),
    U(u128),
    F32(u32),
    F64(u64),
    Char(char),
    Str(String),
    Bytes(Vec<u8>),
    None,
    Some(Box<Value>),
    Seq(Vec<Value>),
    Map(Vec<(Value, Value)>),
    /// enum variant: (variant name, payload)
    Variant(String, Box<Value>),
}

// ---- byte encoding --------------------------------------------------------

fn put_len(n: usize, out: &mut Vec<u8>) {
    out.extend_from_slice(&(n as u64).to_le_bytes());
}
fn encode(v: &Value, out: &mut Vec<u8>) {
    match v {
        Value::Unit => out.push(0),
        Value::Bool(b) => {
            out.push(1);
            out.push(*b as u8)
        }
        Value::I(i) => {
            out.push(2);
            out.extend_from_slice(&i.to_le_bytes())
        }
        Value::U(u) => {
            out.push(3);
            out.extend_from_slice(&u.to_le_bytes())
        }
        Value::F32(b) => {
            out.push(4);
            out.extend_from_slice(&b.to_le_bytes())
        }
        Value::F64(b) => {
            out.push(5);
            out.extend_from_slice(&b.to_le_bytes())
        }
        Value::Char(c) => {
            out.push(6);
            out.extend_from_slice(&(*c as u32).to_le_bytes())
        }
        Value::Str(s) => {
            out.push(7);
            put_len(s.len(), out);
            out.extend_from_slice(s.as_bytes())
        }
        Value::Bytes(s) => {
            out.push(8);
            put_len(s.len(), out);
            out.extend_from_slice(s)
        }
        Value::None => out.push(9),
        Value::Some(x) => {
            out.push(10);
            encode(x, out)
        }
        Value::Seq(xs) => {
            out.push(11);
            put_len(xs.len(), out);
            for x in xs {
                encode(x, out)
            }
        }
        Value::Map(xs) => {
            out.push(12);
            put_len(xs.len(), out);
            for (k, x) in xs {
                encode(k, out);
                encode(x, out)
            }
        }
        Value::Variant(name, x) => {
            out.push(13);
            put_len(name.len(), out);
            out.extend_from_slice(name.as_bytes());
            encode(x, out)
        }
    }
}

fn take<'a>(b: &'a [u8], pos: &mut usize, n: usize) -> Result<&'a [u8], String> {
    if *pos + n > b.len() {
        return Err("truncated".into());
    }
    let s = &b[*pos..*pos + n];
    *pos += n;
    Ok(s)
}
fn get_len(b: &[u8], pos: &mut usize) -> Result<usize, String> {
    let s = take(b, pos, 8)?;
    let n = u64::from_le_bytes(s.try_into().unwrap()) as usize;
    if n > b.len() {
        return Err("bad length".into());
    }
    Ok(n)
}
/// Decode a `Fmt::Val` encoding back into its value tree (used by the field-value
/// coverage search of C15).
pub fn decode_value(b: &[u8]) -> Result<Value, String> {
    let mut pos = 0;
    let v = decode(b, &mut pos)?;
    if pos != b.len() {
        return Err("trailing bytes".into());
    }
    Ok(v)
}

/// (path, class) of every leaf that holds a value serde shortcuts tend to special-case
/// (zero, one, default, infinity, empty, each enum variant name).
pub fn special_leaves(v: &Value) -> Vec<String> {
    fn fclass(x: f64) -> Option<&'static str> {
        Some(if x == 0.0 && x.is_sign_negative() {
            "-0"
        } else if x == 0.0 {
            "0"
        } else if x == 1.0 {
            "1"
        } else if x == -1.0 {
            "-1"
        } else if x == f64::INFINITY {
            "inf"
        } else if x == f64::NEG_INFINITY {
            "-inf"
        } else if x.is_nan() {
            "nan"
        } else {
            return None;
        })
    }
    fn walk(v: &Value, path: &str, out: &mut Vec<String>) {
        match v {
            Value::F32(b) => {
                if let Some(c) = fclass(f32::from_bits(*b) as f64) {
                    out.push(format!("{path}={c}"))
                }
            }
            Value::F64(b) => {
                if let Some(c) = fclass(f64::from_bits(*b)) {
                    out.push(format!("{path}={c}"))
                }
            }
            Value::I(i) if (-1..=1).contains(i) => out.push(format!("{path}={i}")),
            Value::U(u) if *u <= 1 => out.push(format!("{path}={u}")),
            Value::Bool(b) => out.push(format!("{path}={b}")),
            Value::None => out.push(format!("{path}=None")),
            Value::Unit => out.push(format!("{path}=()")),
            Value::Some(x) => walk(x, &format!("{path}?"), out),
            Value::Seq(xs) => {
                if xs.is_empty() {
                    out.push(format!("{path}=[]"));
                }
                // positions beyond the third share one path (long vectors)
                for (i, x) in xs.iter().enumerate() {
                    walk(x, &format!("{path}[{}]", i.min(3)), out)
                }
            }
            Value::Map(xs) => {
                for (k, x) in xs {
                    let key = match k {
                        Value::Str(s) => s.clone(),
                        other => format!("{other:?}"),
                    };
                    walk(x, &format!("{path}.{key}"), out)
                }
            }
            Value::Variant(name, x) => {
                out.push(format!("{path}::{name}"));
                walk(x, &format!("{path}::{name}"), out)
            }
            _ => {}
        }
    }
    let mut out = Vec::new();
    walk(v, "", &mut out);
    out
}

fn decode(b: &[u8], pos: &mut usize) -> Result<Value, String> {
    let tag = take(b, pos, 1)?[0];
    Ok(match tag {
        0 => Value::Unit,
        1 => Value::Bool(take(b, pos, 1)?[0] != 0),
        2 => Value::I(i128::from_le_bytes(take(b, pos, 16)?.try_into().unwrap())),
        3 => Value::U(u128::from_le_bytes(take(b, pos, 16)?.try_into().unwrap())),
        4 => Value::F32(u32::from_le_bytes(take(b, pos, 4)?.try_into().unwrap())),
        5 => Value::F64(u64::from_le_bytes(take(b, pos, 8)?.try_into().unwrap())),
        6 => Value::Char(
            char::from_u32(u32::from_le_bytes(take(b, pos, 4)?.try_into().unwrap())).ok_or("bad char")?,
        ),
        7 => {
            let n = get_len(b, pos)?;
            Value::Str(String::from_utf8(take(b, pos, n)?.to_vec()).map_err(|e| e.to_string())?)
        }
        8 => {
            let n = get_len(b, pos)?;
            Value::Bytes(take(b, pos, n)?.to_vec())
        }
        9 => Value::None,
        10 => Value::Some(Box::new(decode(b, pos)?)),
        11 => {
            let n = get_len(b, pos)?;
            let mut v = Vec::with_capacity(n);
            for _ in 0..n {
                v.push(decode(b, pos)?)
            }
            Value::Seq(v)
        }
        12 => {
            let n = get_len(b, pos)?;
            let mut v = Vec::with_capacity(n);
            for _ in 0..n {
                let k = decode(b, pos)?;
                let x = decode(b, pos)?;
                v.push((k, x))
            }
            Value::Map(v)
        }
        13 => {
            let n = get_len(b, pos)?;
            let name = String::from_utf8(take(b, pos, n)?.to_vec()).map_err(|e| e.to_string())?;
            Value::Variant(name, Box::new(decode(b, pos)?))
        }
        t => return Err(format!("bad tag {t}")),
    })
}

// ---- Serializer -----------------------------------------------------------

#[derive(Debug)]
pub struct Error(pub String);
impl fmt::Display for Error {
    fn fmt(&self, f: &mut fmt::Formatter) -> fmt::Result {
        f.write_str(&self.0)
    }
}
impl std::error::Error for Error {}
impl ser::Error for Error {
    fn custom<T: fmt::Display>(msg: T) -> Self {
        Error(msg.to_string())
    }
}
impl de::Error for Error {
    fn custom<T: fmt::Display>(msg: T) -> Self {
        Error(msg.to_string())
    }
}

struct ValSer;

struct SeqSer(Vec<Value>, Option<String>);
struct MapSer(Vec<(Value, Value)>, Option<Value>, Option<String>);

impl ser::Serializer for ValSer {
    type Ok = Value;
    type Error = Error;
    type SerializeSeq = SeqSer;
    type SerializeTuple = SeqSer;
    type SerializeTupleStruct = SeqSer;
    type SerializeTupleVariant = SeqSer;
    type SerializeMap = MapSer;
    type SerializeStruct = MapSer;
    type SerializeStructVariant = MapSer;

    fn serialize_bool(self, v: bool) -> Result<Value, Error> {
        Ok(Value::Bool(v))
    }
    fn serialize_i8(self, v: i8) -> Result<Value, Error> {
        Ok(Value::I(v as i128))
    }
    fn serialize_i16(self, v: i16) -> Result<Value, Error> {
        Ok(Value::I(v as i128))
    }
    fn serialize_i32(self, v: i32) -> Result<Value, Error> {
        Ok(Value::I(v as i128))
    }
    fn serialize_i64(self, v: i64) -> Result<Value, Error> {
        Ok(Value::I(v as i128))
    }
    fn serialize_i128(self, v: i128) -> Result<Value, Error> {
        Ok(Value::I(v))
    }
    fn serialize_u8(self, v: u8) -> Result<Value, Error> {
        Ok(Value::U(v as u128))
    }
    fn serialize_u16(self, v: u16) -> Result<Value, Error> {
        Ok(Value::U(v as u128))
    }
    fn serialize_u32(self, v: u32) -> Result<Value, Error> {
        Ok(Value::U(v as u128))
    }
    fn serialize_u64(self, v: u64) -> Result<Value, Error> {
        Ok(Value::U(v as u128))
    }
    fn serialize_u128(self, v: u128) -> Result<Value, Error> {
        Ok(Value::U(v))
    }
    fn serialize_f32(self, v: f32) -> Result<Value, Error> {
        Ok(Value::F32(v.to_bits()))
    }
    fn serialize_f64(self, v: f64) -> Result<Value, Error> {
        Ok(Value::F64(v.to_bits()))
    }
    fn serialize_char(self, v: char) -> Result<Value, Error> {
        Ok(Value::Char(v))
    }
    fn serialize_str(self, v: &str) -> Result<Value, Error> {
        Ok(Value::Str(v.to_string()))
    }
    fn serialize_bytes(self, v: &[u8]) -> Result<Value, Error> {
        Ok(Value::Bytes(v.to_vec()))
    }
    fn serialize_none(self) -> Result<Value, Error> {
        Ok(Value::None)
    }
    fn serialize_some<T: ?Sized + Serialize>(self, value: &T) -> Result<Value, Error> {
        Ok(Value::Some(Box::new(value.serialize(ValSer)?)))
    }
    fn serialize_unit(self) -> Result<Value, Error> {
        Ok(Value::Unit)
    }
    fn serialize_unit_struct(self, _name: &'static str) -> Result<Value, Error> {
        Ok(Value::Unit)
    }
    fn serialize_unit_variant(self, _n: &'static str, _i: u32, variant: &'static str) -> Result<Value, Error> {
        Ok(Value::Variant(variant.to_string(), Box::new(Value::Unit)))
    }
    fn serialize_newtype_struct<T: ?Sized + Serialize>(self, _n: &'static str, value: &T) -> Result<Value, Error> {
        value.serialize(ValSer)
    }
    fn serialize_newtype_variant<T: ?Sized + Serialize>(
        self,
        _n: &'static str,
        _i: u32,
        variant: &'static str,
        value: &T,
    ) -> Result<Value, Error> {
        Ok(Value::Variant(variant.to_string(), Box::new(value.serialize(ValSer)?)))
    }
    fn serialize_seq(self, len: Option<usize>) -> Result<SeqSer, Error> {
        Ok(SeqSer(Vec::with_capacity(len.unwrap_or(0)), None))
    }
    fn serialize_tuple(self, len: usize) -> Result<SeqSer, Error> {
        Ok(SeqSer(Vec::with_capacity(len), None))
    }
    fn serialize_tuple_struct(self, _n: &'static str, len: usize) -> Result<SeqSer, Error> {
        Ok(SeqSer(Vec::with_capacity(len), None))
    }
    fn serialize_tuple_variant(self, _n: &'static str, _i: u32, variant: &'static str, len: usize) -> Result<SeqSer, Error> {
        Ok(SeqSer(Vec::with_capacity(len), Some(variant.to_string())))
    }
    fn serialize_map(self, len: Option<usize>) -> Result<MapSer, Error> {
        Ok(MapSer(Vec::with_capacity(len.unwrap_or(0)), None, None))
    }
    fn serialize_struct(self, _n: &'static str, len: usize) -> Result<MapSer, Error> {
        Ok(MapSer(Vec::with_capacity(len), None, None))
    }
    fn serialize_struct_variant(self, _n: &'static str, _i: u32, variant: &'static str, len: usize) -> Result<MapSer, Error> {
        Ok(MapSer(Vec::with_capacity(len), None, Some(variant.to_string())))
    }
}

impl SeqSer {
    fn finish(self) -> Value {
        match self.1 {
            None => Value::Seq(self.0),
            Some(v) => Value::Variant(v, Box::new(Value::Seq(self.0))),
        }
    }
}
impl ser::SerializeSeq for SeqSer {
    type Ok = Value;
    type Error = Error;
    fn serialize_element<T: ?Sized + Serialize>(&mut self, value: &T) -> Result<(), Error> {
        self.0.push(value.serialize(ValSer)?);
        Ok(())
    }
    fn end(self) -> Result<Value, Error> {
        Ok(self.finish())
    }
}
impl ser::SerializeTuple for SeqSer {
    type Ok = Value;
    type Error = Error;
    fn serialize_element<T: ?Sized + Serialize>(&mut self, value: &T) -> Result<(), Error> {
        self.0.push(value.serialize(ValSer)?);
        Ok(())
    }
    fn end(self) -> Result<Value, Error> {
        Ok(self.finish())
    }
}
impl ser::SerializeTupleStruct for SeqSer {
    type Ok = Value;
    type Error = Error;
    fn serialize_field<T: ?Sized + Serialize>(&mut self, value: &T) -> Result<(), Error> {
        self.0.push(value.serialize(ValSer)?);
        Ok(())
    }
    fn end(self) -> Result<Value, Error> {
        Ok(self.finish())
    }
}
impl ser::SerializeTupleVariant for SeqSer {
    type Ok = Value;
    type Error = Error;
    fn serialize_field<T: ?Sized + Serialize>(&mut self, value: &T) -> Result<(), Error> {
        self.0.push(value.serialize(ValSer)?);
        Ok(())
    }
    fn end(self) -> Result<Value, Error> {
        Ok(self.finish())
    }
}
impl MapSer {
    fn finish(self) -> Value {
        match self.2 {
            None => Value::Map(self.0),
            Some(v) => Value::Variant(v, Box::new(Value::Map(self.0))),
        }
    }
}
impl ser::SerializeMap for MapSer {
    type Ok = Value;
    type Error = Error;
    fn serialize_key<T: ?Sized + Serialize>(&mut self, key: &T) -> Result<(), Error> {
        self.1 = Some(key.serialize(ValSer)?);
        Ok(())
    }
    fn serialize_value<T: ?Sized + Serialize>(&mut self, value: &T) -> Result<(), Error> {
        let k = self.1.take().ok_or_else(|| Error("value without key".into()))?;
        self.0.push((k, value.serialize(ValSer)?));
        Ok(())
    }
    fn end(self) -> Result<Value, Error> {
        Ok(self.finish())
    }
}
impl ser::SerializeStruct for MapSer {
    type Ok = Value;
    type Error = Error;
    fn serialize_field<T: ?Sized + Serialize>(&mut self, key: &'static str, value: &T) -> Result<(), Error> {
        self.0.push((Value::Str(key.to_string()), value.serialize(ValSer)?));
        Ok(())
    }
    fn end(self) -> Result<Value, Error> {
        Ok(self.finish())
    }
}
impl ser::SerializeStructVariant for MapSer {
    type Ok = Value;
    type Error = Error;
    fn serialize_field<T: ?Sized + Serialize>(&mut self, key: &'static str, value: &T) -> Result<(), Error> {
        self.0.push((Value::Str(key.to_string()), value.serialize(ValSer)?));
        Ok(())
    }
    fn end(self) -> Result<Value, Error> {
        Ok(self.finish())
    }
}

// ---- Deserializer ---------------------------------------------------------

struct ValDe(Value);

struct SeqDe(std::vec::IntoIter<Value>);
impl<'de> SeqAccess<'de> for SeqDe {
    type Error = Error;
    fn next_element_seed<T: DeserializeSeed<'de>>(&mut self, seed: T) -> Result<Option<T::Value>, Error> {
        match self.0.next() {
            None => Ok(None),
            Some(v) => seed.deserialize(ValDe(v)).map(Some),
        }
    }
    fn size_hint(&self) -> Option<usize> {
        Some(self.0.len())
    }
}
struct MapDe(std::vec::IntoIter<(Value, Value)>, Option<Value>);
impl<'de> MapAccess<'de> for MapDe {
    type Error = Error;
    fn next_key_seed<K: DeserializeSeed<'de>>(&mut self, seed: K) -> Result<Option<K::Value>, Error> {
        match self.0.next() {
            None => Ok(None),
            Some((k, v)) => {
                self.1 = Some(v);
                seed.deserialize(ValDe(k)).map(Some)
            }
        }
    }
    fn next_value_seed<V: DeserializeSeed<'de>>(&mut self, seed: V) -> Result<V::Value, Error> {
        let v = self.1.take().ok_or_else(|| Error("value before key".into()))?;
        seed.deserialize(ValDe(v))
    }
}
struct EnumDe(String, Value);
impl<'de> EnumAccess<'de> for EnumDe {
    type Error = Error;
    type Variant = VariantDe;
    fn variant_seed<V: DeserializeSeed<'de>>(self, seed: V) -> Result<(V::Value, VariantDe), Error> {
        let v = seed.deserialize(ValDe(Value::Str(self.0)))?;
        Ok((v, VariantDe(self.1)))
    }
}
struct VariantDe(Value);
impl<'de> VariantAccess<'de> for VariantDe {
    type Error = Error;
    fn unit_variant(self) -> Result<(), Error> {
        match self.0 {
            Value::Unit => Ok(()),
            v => Err(Error(format!("expected unit variant, got {v:?}"))),
        }
    }
    fn newtype_variant_seed<T: DeserializeSeed<'de>>(self, seed: T) -> Result<T::Value, Error> {
        seed.deserialize(ValDe(self.0))
    }
    fn tuple_variant<V: Visitor<'de>>(self, _len: usize, visitor: V) -> Result<V::Value, Error> {
        de::Deserializer::deserialize_any(ValDe(self.0), visitor)
    }
    fn struct_variant<V: Visitor<'de>>(self, _fields: &'static [&'static str], visitor: V) -> Result<V::Value, Error> {
        de::Deserializer::deserialize_any(ValDe(self.0), visitor)
    }
}

impl<'de> de::Deserializer<'de> for ValDe {
    type Error = Error;
    fn deserialize_any<V: Visitor<'de>>(self, visitor: V) -> Result<V::Value, Error> {
        match self.0 {
            Value::Unit => visitor.visit_unit(),
            Value::Bool(b) => visitor.visit_bool(b),
            Value::I(i) => {
                if let Ok(x) = i64::try_from(i) {
                    visitor.visit_i64(x)
                } else {
                    visitor.visit_i128(i)
                }
            }
            Value::U(u) => {
                if let Ok(x) = u64::try_from(u) {
                    visitor.visit_u64(x)
                } else {
                    visitor.visit_u128(u)
                }
            }
            Value::F32(b) => visitor.visit_f32(f32::from_bits(b)),
            Value::F64(b) => visitor.visit_f64(f64::from_bits(b)),
            Value::Char(c) => visitor.visit_char(c),
            Value::Str(s) => visitor.visit_string(s),
            Value::Bytes(b) => visitor.visit_byte_buf(b),
            Value::None => visitor.visit_none(),
            Value::Some(v) => visitor.visit_some(ValDe(*v)),
            Value::Seq(v) => visitor.visit_seq(SeqDe(v.into_iter())),
            Value::Map(v) => visitor.visit_map(MapDe(v.into_iter(), None)),
            Value::Variant(n, p) => visitor.visit_enum(EnumDe(n, *p)),
        }
    }
    fn deserialize_option<V: Visitor<'de>>(self, visitor: V) -> Result<V::Value, Error> {
        match self.0 {
            Value::None => visitor.visit_none(),
            Value::Some(v) => visitor.visit_some(ValDe(*v)),
            other => visitor.visit_some(ValDe(other)),
        }
    }
    fn deserialize_enum<V: Visitor<'de>>(
        self,
        _name: &'static str,
        _variants: &'static [&'static str],
        visitor: V,
    ) -> Result<V::Value, Error> {
        match self.0 {
            Value::Variant(n, p) => visitor.visit_enum(EnumDe(n, *p)),
            Value::Str(s) => visitor.visit_enum(EnumDe(s, Value::Unit)),
            v => Err(Error(format!("expected enum, got {v:?}"))),
        }
    }
    fn deserialize_newtype_struct<V: Visitor<'de>>(self, _name: &'static str, visitor: V) -> Result<V::Value, Error> {
        visitor.visit_newtype_struct(self)
    }
    fn deserialize_unit_struct<V: Visitor<'de>>(self, _name: &'static str, visitor: V) -> Result<V::Value, Error> {
        match self.0 {
            Value::Unit => visitor.visit_unit(),
            v => Err(Error(format!("expected unit struct, got {v:?}"))),
        }
    }
    // f32 stored as F32 must come back bit-exactly even when asked as f32
    fn deserialize_f32<V: Visitor<'de>>(self, visitor: V) -> Result<V::Value, Error> {
        match self.0 {
            Value::F32(b) => visitor.visit_f32(f32::from_bits(b)),
            Value::F64(b) => visitor.visit_f64(f64::from_bits(b)),
            v => ValDe(v).deserialize_any(visitor),
        }
    }
    serde::forward_to_deserialize_any! {
        bool i8 i16 i32 i64 i128 u8 u16 u32 u64 u128 f64 char str string
        bytes byte_buf unit seq tuple
        tuple_struct map struct identifier ignored_any
    }
}

#[cfg(test)]
mod tests {
    use super::*;
    use serde::{Deserialize, Serialize};
    #[derive(Debug, PartialEq, Serialize, Deserialize)]
    enum E {
        A,
        B(f64, bool),
        C { x: f32, y: Vec<u128> },
        D(Box<E>),
    }
    #[derive(Debug, PartialEq, Serialize, Deserialize)]
    struct S {
        a: f64,
        b: Option<u8>,
        e: Vec<E>,
        t: (i128, u64),
        u: (),
        bx: Box<[u32]>,
    }
    #[test]
    fn roundtrip() {
        let s = S {
            a: f64::INFINITY,
            b: Some(3),
            e: vec![E::A, E::B(-0.0, true), E::C { x: f32::MIN_POSITIVE, y: vec![u128::MAX] }, E::D(Box::new(E::A))],
            t: (i128::MIN, u64::MAX),
            u: (),
            bx: vec![1, 2, 3].into_boxed_slice(),
        };
        let b = to_bytes(Fmt::Val, &s).unwrap();
        let s2: S = from_bytes(Fmt::Val, &b).unwrap();
        assert_eq!(s, s2);
        let nan = f64::from_bits(0x7ff8_0000_dead_beef);
        let b = to_bytes(Fmt::Val, &nan).unwrap();
        let n2: f64 = from_bytes(Fmt::Val, &b).unwrap();
        assert_eq!(nan.to_bits(), n2.to_bits());
    }
}
