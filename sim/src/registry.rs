//! Registry of every public distribution type of `rand_distr`, type-erased behind
//! `Obj` so that the engines can drive any of them through the RNG seam.
//!
//! A `DistSpec` is plain data (family, scalar type, parameters) and is what replay
//! files store; `build()` calls the real constructor.

use crate::serde_fmt::{self, Fmt};
use crate::simrng::SimRng;
use rand::RngExt;
use rand_distr::multi::{Dirichlet, MultiDistribution};
use rand_distr::weighted::{WeightedAliasIndex, WeightedTreeIndex};
use rand_distr::*;
use serde::{de::DeserializeOwned, Deserialize, Serialize};
use std::any::Any;
use std::fmt::Debug;

#[derive(Clone, Copy, Debug, PartialEq, Eq, PartialOrd, Ord, Hash, Serialize, Deserialize)]
pub enum Family {
    StandardNormal,
    Normal,
    LogNormal,
    LogNormalMeanCv,
    NormalMeanCv,
    Exp1,
    Exp,
    Gamma,
    ChiSquared,
    StudentT,
    FisherF,
    Beta,
    Pert,
    PertMean,
    Triangular,
    Cauchy,
    Pareto,
    Weibull,
    Gumbel,
    Frechet,
    SkewNormal,
    InverseGaussian,
    Nig,
    Binomial,
    Poisson,
    Geometric,
    StandardGeometric,
    Hypergeometric,
    Zipf,
    Zeta,
    Dirichlet,
    UnitCircle,
    UnitDisc,
    UnitSphere,
    UnitBall,
    Alias,
    Tree,
}

#[derive(Clone, Copy, Debug, PartialEq, Eq, PartialOrd, Ord, Hash, Serialize, Deserialize)]
pub enum Scalar {
    F32,
    F64,
    /// no float type parameter (Binomial, Geometric, Hypergeometric) or weight type given in `wty`
    None,
}

/// Weight type for the weighted indices.
#[derive(Clone, Copy, Debug, PartialEq, Eq, PartialOrd, Ord, Hash, Serialize, Deserialize)]
pub enum WTy {
    U8,
    U16,
    U32,
    U64,
    U128,
    Usize,
    I8,
    I16,
    I32,
    I64,
    I128,
    F32,
    F64,
}

pub const ALL_WTY: [WTy; 13] = [
    WTy::U8,
    WTy::U16,
    WTy::U32,
    WTy::U64,
    WTy::U128,
    WTy::Usize,
    WTy::I8,
    WTy::I16,
    WTy::I32,
    WTy::I64,
    WTy::I128,
    WTy::F32,
    WTy::F64,
];

impl WTy {
    pub fn is_float(self) -> bool {
        matches!(self, WTy::F32 | WTy::F64)
    }
    /// MAX of the type as u128 (integers only)
    pub fn max_u128(self) -> u128 {
        match self {
            WTy::U8 => u8::MAX as u128,
            WTy::U16 => u16::MAX as u128,
            WTy::U32 => u32::MAX as u128,
            WTy::U64 => u64::MAX as u128,
            WTy::U128 => u128::MAX,
            WTy::Usize => usize::MAX as u128,
            WTy::I8 => i8::MAX as u128,
            WTy::I16 => i16::MAX as u128,
            WTy::I32 => i32::MAX as u128,
            WTy::I64 => i64::MAX as u128,
            WTy::I128 => i128::MAX as u128,
            WTy::F32 | WTy::F64 => 0,
        }
    }
    /// number of RNG words one `Uniform<W>` draw consumes at most in the fast path
    pub fn one_word(self) -> bool {
        !matches!(self, WTy::U128 | WTy::I128 | WTy::F32 | WTy::F64)
    }
}

/// JSON has no infinities or NaN (serde_json writes `null`): non-finite parameters are
/// written as the strings "inf", "-inf", "nan", so that replay files rebuild the same value.
mod floats_lossless {
    use serde::{Deserialize, Deserializer, Serialize, Serializer};
    #[derive(Serialize, Deserialize)]
    #[serde(untagged)]
    enum F {
        Num(f64),
        Txt(String),
        Null(()),
    }
    pub fn serialize<S: Serializer>(v: &[f64], s: S) -> Result<S::Ok, S::Error> {
        let w: Vec<F> = v
            .iter()
            .map(|x| {
                if x.is_finite() {
                    F::Num(*x)
                } else if x.is_nan() {
                    F::Txt("nan".into())
                } else if *x > 0.0 {
                    F::Txt("inf".into())
                } else {
                    F::Txt("-inf".into())
                }
            })
            .collect();
        w.serialize(s)
    }
    pub fn deserialize<'de, D: Deserializer<'de>>(d: D) -> Result<Vec<f64>, D::Error> {
        let w: Vec<F> = Vec::deserialize(d)?;
        w.into_iter()
            .map(|f| match f {
                F::Num(x) => Ok(x),
                F::Txt(t) => match t.as_str() {
                    "inf" => Ok(f64::INFINITY),
                    "-inf" => Ok(f64::NEG_INFINITY),
                    "nan" => Ok(f64::NAN),
                    o => Err(serde::de::Error::custom(format!("bad float {o}"))),
                },
                F::Null(()) => Err(serde::de::Error::custom("null float parameter (written by an older harness for a non-finite value)")),
            })
            .collect()
    }
}

#[derive(Clone, Debug, PartialEq, Serialize, Deserialize)]
pub struct DistSpec {
    pub family: Family,
    pub scalar: Scalar,
    /// float parameters, in constructor order (stored as f64; f32 specs hold values
    /// that are exactly representable in f32)
    #[serde(default, with = "floats_lossless")]
    pub p: Vec<f64>,
    /// integer parameters / integer weights
    #[serde(default)]
    pub n: Vec<u64>,
    /// weight type for Alias / Tree
    #[serde(default)]
    pub wty: Option<WTy>,
}

impl DistSpec {
    pub fn f(family: Family, scalar: Scalar, p: &[f64]) -> Self {
        let p = match scalar {
            Scalar::F32 => p.iter().map(|&x| x as f32 as f64).collect(),
            _ => p.to_vec(),
        };
        DistSpec { family, scalar, p, n: vec![], wty: None }
    }
    pub fn i(family: Family, n: &[u64], p: &[f64]) -> Self {
        DistSpec { family, scalar: Scalar::None, p: p.to_vec(), n: n.to_vec(), wty: None }
    }
    pub fn w_int(family: Family, wty: WTy, n: &[u64]) -> Self {
        DistSpec { family, scalar: Scalar::None, p: vec![], n: n.to_vec(), wty: Some(wty) }
    }
    pub fn w_float(family: Family, wty: WTy, p: &[f64]) -> Self {
        let p = if wty == WTy::F32 { p.iter().map(|&x| x as f32 as f64).collect() } else { p.to_vec() };
        DistSpec { family, scalar: Scalar::None, p, n: vec![], wty: Some(wty) }
    }
    pub fn label(&self) -> String {
        let sc = match (self.scalar, self.wty) {
            (Scalar::F32, _) => "<f32>".to_string(),
            (Scalar::F64, _) => "<f64>".to_string(),
            (_, Some(w)) => format!("<{:?}>", w).to_lowercase(),
            _ => String::new(),
        };
        let mut parts: Vec<String> = self.n.iter().take(8).map(|x| x.to_string()).collect();
        parts.extend(self.p.iter().take(8).map(|x| format!("{:e}", x)));
        if self.n.len() + self.p.len() > 8 {
            parts.push(format!("..len{}", self.n.len() + self.p.len()));
        }
        format!("{:?}{}({})", self.family, sc, parts.join(","))
    }
    pub fn is_f32(&self) -> bool {
        self.scalar == Scalar::F32
    }
}

// ---------------------------------------------------------------------------
// Outputs
// ---------------------------------------------------------------------------

#[derive(Clone, Debug, PartialEq)]
pub enum Out {
    F32(f32),
    F64(f64),
    U64(u64),
    Idx(usize),
    V32(Vec<f32>),
    V64(Vec<f64>),
}

impl Out {
    /// exact bit pattern(s), for equality and digests
    pub fn bits(&self) -> Vec<u64> {
        match self {
            Out::F32(x) => vec![x.to_bits() as u64],
            Out::F64(x) => vec![x.to_bits()],
            Out::U64(x) => vec![*x],
            Out::Idx(x) => vec![*x as u64],
            Out::V32(v) => v.iter().map(|x| x.to_bits() as u64).collect(),
            Out::V64(v) => v.iter().map(|x| x.to_bits()).collect(),
        }
    }
    pub fn same_bits(&self, o: &Out) -> bool {
        std::mem::discriminant(self) == std::mem::discriminant(o) && self.bits() == o.bits()
    }
    /// scalar float value widened exactly to f64
    pub fn as_f64(&self) -> Option<f64> {
        match self {
            Out::F32(x) => Some(*x as f64),
            Out::F64(x) => Some(*x),
            _ => None,
        }
    }
    pub fn as_vec_f64(&self) -> Option<Vec<f64>> {
        match self {
            Out::V32(v) => Some(v.iter().map(|&x| x as f64).collect()),
            Out::V64(v) => Some(v.clone()),
            _ => None,
        }
    }
    pub fn show(&self) -> String {
        match self {
            Out::F32(x) => format!("{:e}f32[{:#x}]", x, x.to_bits()),
            Out::F64(x) => format!("{:e}f64[{:#x}]", x, x.to_bits()),
            Out::U64(x) => format!("{}u64", x),
            Out::Idx(x) => format!("idx{}", x),
            Out::V32(v) => format!("{:?}f32", v),
            Out::V64(v) => format!("{:?}f64", v),
        }
    }
}

pub trait IntoOut {
    fn into_out(self) -> Out;
}
impl IntoOut for f32 {
    fn into_out(self) -> Out {
        Out::F32(self)
    }
}
impl IntoOut for f64 {
    fn into_out(self) -> Out {
        Out::F64(self)
    }
}
impl IntoOut for u64 {
    fn into_out(self) -> Out {
        Out::U64(self)
    }
}
impl IntoOut for usize {
    fn into_out(self) -> Out {
        Out::Idx(self)
    }
}
impl IntoOut for Vec<f32> {
    fn into_out(self) -> Out {
        Out::V32(self)
    }
}
impl IntoOut for Vec<f64> {
    fn into_out(self) -> Out {
        Out::V64(self)
    }
}
impl<const N: usize> IntoOut for [f32; N] {
    fn into_out(self) -> Out {
        Out::V32(self.to_vec())
    }
}
impl<const N: usize> IntoOut for [f64; N] {
    fn into_out(self) -> Out {
        Out::V64(self.to_vec())
    }
}

/// scalar outputs as f64 / u64 for the bulk paths
pub trait ScalarOut: Copy {
    fn to_f64(self) -> f64;
    fn to_u64(self) -> u64;
}
impl ScalarOut for f32 {
    #[inline]
    fn to_f64(self) -> f64 {
        self as f64
    }
    #[inline]
    fn to_u64(self) -> u64 {
        self as u64
    }
}
impl ScalarOut for f64 {
    #[inline]
    fn to_f64(self) -> f64 {
        self
    }
    #[inline]
    fn to_u64(self) -> u64 {
        self as u64
    }
}
impl ScalarOut for u64 {
    #[inline]
    fn to_f64(self) -> f64 {
        self as f64
    }
    #[inline]
    fn to_u64(self) -> u64 {
        self
    }
}
impl ScalarOut for usize {
    #[inline]
    fn to_f64(self) -> f64 {
        self as f64
    }
    #[inline]
    fn to_u64(self) -> u64 {
        self as u64
    }
}

// ---------------------------------------------------------------------------
// The type-erased object
// ---------------------------------------------------------------------------

pub trait Obj: Send {
    fn sample(&self, rng: &mut SimRng) -> Out;
    /// `rng.sample(&d)` instead of `d.sample(&mut rng)`
    fn rng_sample(&self, rng: &mut SimRng) -> Out;
    /// `d.sample_iter(&mut rng).take(n)`
    fn sample_iter(&self, rng: &mut SimRng, n: usize) -> Vec<Out>;
    /// bulk scalar sampling (widened to f64); false if the output is not scalar
    fn fill_f64(&self, rng: &mut SimRng, buf: &mut [f64]) -> bool;
    /// bulk sampling of integer-valued outputs; false if not applicable
    fn fill_u64(&self, rng: &mut SimRng, buf: &mut [u64]) -> bool;
    fn clone_obj(&self) -> Box<dyn Obj>;
    /// `self.clone_from(other)` if `other` has the same concrete type
    fn clone_from_obj(&mut self, other: &dyn Obj) -> bool;
    /// `==` where the type implements `PartialEq`
    fn eq_obj(&self, other: &dyn Obj) -> Option<bool>;
    fn debug(&self) -> String;
    fn has_serde(&self) -> bool;
    fn ser(&self, fmt: Fmt) -> Option<Result<Vec<u8>, String>>;
    /// deserialize a value of the same concrete type
    fn de(&self, fmt: Fmt, bytes: &[u8]) -> Option<Result<Box<dyn Obj>, String>>;
    fn as_any(&self) -> &dyn Any;
}

macro_rules! common_obj_methods {
    ($T:ty) => {
        #[inline]
        fn sample(&self, rng: &mut SimRng) -> Out {
            let x: $T = self.0.sample(rng);
            x.into_out()
        }
        fn rng_sample(&self, rng: &mut SimRng) -> Out {
            let x: $T = rng.sample(&self.0);
            x.into_out()
        }
        fn sample_iter(&self, rng: &mut SimRng, n: usize) -> Vec<Out> {
            let it = Distribution::<$T>::sample_iter(&self.0, rng);
            it.take(n).map(|x: $T| x.into_out()).collect()
        }
        fn clone_obj(&self) -> Box<dyn Obj> {
            Box::new(Self(self.0.clone(), std::marker::PhantomData))
        }
        fn clone_from_obj(&mut self, other: &dyn Obj) -> bool {
            match other.as_any().downcast_ref::<Self>() {
                Some(o) => {
                    self.0.clone_from(&o.0);
                    true
                }
                None => false,
            }
        }
        fn debug(&self) -> String {
            format!("{:?}", self.0)
        }
        fn as_any(&self) -> &dyn Any {
            self
        }
    };
}

pub trait Bulk<T> {
    fn bulk_f64(d: &Self, rng: &mut SimRng, buf: &mut [f64]) -> bool;
    fn bulk_u64(d: &Self, rng: &mut SimRng, buf: &mut [u64]) -> bool;
}

macro_rules! bulk_scalar {
    ($($T:ty),*) => {$(
        impl<D: Distribution<$T>> Bulk<$T> for D {
            #[inline]
            fn bulk_f64(d: &Self, rng: &mut SimRng, buf: &mut [f64]) -> bool {
                for b in buf.iter_mut() {
                    let x: $T = d.sample(rng);
                    *b = x.to_f64();
                }
                true
            }
            #[inline]
            fn bulk_u64(d: &Self, rng: &mut SimRng, buf: &mut [u64]) -> bool {
                for b in buf.iter_mut() {
                    let x: $T = d.sample(rng);
                    *b = x.to_u64();
                }
                true
            }
        }
    )*};
}
bulk_scalar!(f32, f64, u64, usize);
macro_rules! bulk_none {
    ($($T:ty),*) => {$(
        impl<D: Distribution<$T>> Bulk<$T> for D {
            fn bulk_f64(_: &Self, _: &mut SimRng, _: &mut [f64]) -> bool { false }
            fn bulk_u64(_: &Self, _: &mut SimRng, _: &mut [u64]) -> bool { false }
        }
    )*};
}
bulk_none!(Vec<f32>, Vec<f64>, [f32; 2], [f32; 3], [f64; 2], [f64; 3]);

/// Clone + Debug + PartialEq + Serialize + Deserialize
pub struct WEqSerde<D, T>(pub D, std::marker::PhantomData<fn() -> T>);
/// Clone + Debug + Serialize + Deserialize, no PartialEq (unit structs, alias index)
pub struct WSerde<D, T>(pub D, std::marker::PhantomData<fn() -> T>);
/// Clone + Debug + PartialEq, no serde (Zipf, Zeta, Dirichlet)
pub struct WEq<D, T>(pub D, std::marker::PhantomData<fn() -> T>);

impl<D, T> Obj for WEqSerde<D, T>
where
    D: Distribution<T> + Clone + Debug + PartialEq + Serialize + DeserializeOwned + Send + 'static,
    T: IntoOut + 'static,
    D: Bulk<T>,
{
    common_obj_methods!(T);
    fn fill_f64(&self, rng: &mut SimRng, buf: &mut [f64]) -> bool {
        <D as Bulk<T>>::bulk_f64(&self.0, rng, buf)
    }
    fn fill_u64(&self, rng: &mut SimRng, buf: &mut [u64]) -> bool {
        <D as Bulk<T>>::bulk_u64(&self.0, rng, buf)
    }
    fn eq_obj(&self, other: &dyn Obj) -> Option<bool> {
        other.as_any().downcast_ref::<Self>().map(|o| self.0 == o.0)
    }
    fn has_serde(&self) -> bool {
        true
    }
    fn ser(&self, fmt: Fmt) -> Option<Result<Vec<u8>, String>> {
        Some(serde_fmt::to_bytes(fmt, &self.0))
    }
    fn de(&self, fmt: Fmt, bytes: &[u8]) -> Option<Result<Box<dyn Obj>, String>> {
        Some(
            serde_fmt::from_bytes::<D>(fmt, bytes)
                .map(|d| Box::new(Self(d, std::marker::PhantomData)) as Box<dyn Obj>),
        )
    }
}

impl<D, T> Obj for WSerde<D, T>
where
    D: Distribution<T> + Clone + Debug + Serialize + DeserializeOwned + Send + 'static,
    T: IntoOut + 'static,
    D: Bulk<T>,
{
    common_obj_methods!(T);
    fn fill_f64(&self, rng: &mut SimRng, buf: &mut [f64]) -> bool {
        <D as Bulk<T>>::bulk_f64(&self.0, rng, buf)
    }
    fn fill_u64(&self, rng: &mut SimRng, buf: &mut [u64]) -> bool {
        <D as Bulk<T>>::bulk_u64(&self.0, rng, buf)
    }
    fn eq_obj(&self, _other: &dyn Obj) -> Option<bool> {
        None
    }
    fn has_serde(&self) -> bool {
        true
    }
    fn ser(&self, fmt: Fmt) -> Option<Result<Vec<u8>, String>> {
        Some(serde_fmt::to_bytes(fmt, &self.0))
    }
    fn de(&self, fmt: Fmt, bytes: &[u8]) -> Option<Result<Box<dyn Obj>, String>> {
        Some(
            serde_fmt::from_bytes::<D>(fmt, bytes)
                .map(|d| Box::new(Self(d, std::marker::PhantomData)) as Box<dyn Obj>),
        )
    }
}

impl<D, T> Obj for WEq<D, T>
where
    D: Distribution<T> + Clone + Debug + PartialEq + Send + 'static,
    T: IntoOut + 'static,
    D: Bulk<T>,
{
    common_obj_methods!(T);
    fn fill_f64(&self, rng: &mut SimRng, buf: &mut [f64]) -> bool {
        <D as Bulk<T>>::bulk_f64(&self.0, rng, buf)
    }
    fn fill_u64(&self, rng: &mut SimRng, buf: &mut [u64]) -> bool {
        <D as Bulk<T>>::bulk_u64(&self.0, rng, buf)
    }
    fn eq_obj(&self, other: &dyn Obj) -> Option<bool> {
        other.as_any().downcast_ref::<Self>().map(|o| self.0 == o.0)
    }
    fn has_serde(&self) -> bool {
        false
    }
    fn ser(&self, _fmt: Fmt) -> Option<Result<Vec<u8>, String>> {
        None
    }
    fn de(&self, _fmt: Fmt, _bytes: &[u8]) -> Option<Result<Box<dyn Obj>, String>> {
        None
    }
}

fn es<D, T>(d: D) -> Box<dyn Obj>
where
    WEqSerde<D, T>: Obj + 'static,
{
    Box::new(WEqSerde::<D, T>(d, std::marker::PhantomData))
}
fn so<D, T>(d: D) -> Box<dyn Obj>
where
    WSerde<D, T>: Obj + 'static,
{
    Box::new(WSerde::<D, T>(d, std::marker::PhantomData))
}
fn eo<D, T>(d: D) -> Box<dyn Obj>
where
    WEq<D, T>: Obj + 'static,
{
    Box::new(WEq::<D, T>(d, std::marker::PhantomData))
}

/// Dirichlet sampled through `sample_to_slice` (for the agreement clause of C11).
pub fn dirichlet_to_slice(spec: &DistSpec, rng: &mut SimRng) -> Result<Out, String> {
    match spec.scalar {
        Scalar::F32 => {
            let a: Vec<f32> = spec.p.iter().map(|&x| x as f32).collect();
            let d = Dirichlet::new(&a).map_err(|e| format!("{e:?}"))?;
            // a dirty buffer: every entry must be overwritten by the sampler
            let mut buf = vec![f32::NAN; d.sample_len()];
            d.sample_to_slice(rng, &mut buf);
            Ok(Out::V32(buf))
        }
        _ => {
            let d = Dirichlet::new(&spec.p).map_err(|e| format!("{e:?}"))?;
            let mut buf = vec![f64::NAN; d.sample_len()];
            d.sample_to_slice(rng, &mut buf);
            Ok(Out::V64(buf))
        }
    }
}

fn need(spec: &DistSpec, np: usize, nn: usize) -> Result<(), String> {
    if spec.p.len() != np || spec.n.len() != nn {
        Err(format!("{:?}: expected {} float / {} int params, got {:?}", spec.family, np, nn, spec))
    } else {
        Ok(())
    }
}

macro_rules! build_float_family {
    ($F:ty, $spec:expr) => {{
        let spec: &DistSpec = $spec;
        let p: Vec<$F> = spec.p.iter().map(|&x| x as $F).collect();
        let e = |s: String| format!("{}: {}", spec.label(), s);
        let r: Result<Box<dyn Obj>, String> = match spec.family {
            Family::StandardNormal => {
                need(spec, 0, 0)?;
                Ok(so::<_, $F>(StandardNormal))
            }
            Family::Exp1 => {
                need(spec, 0, 0)?;
                Ok(so::<_, $F>(Exp1))
            }
            Family::Normal => {
                need(spec, 2, 0)?;
                Normal::<$F>::new(p[0], p[1]).map(es::<_, $F>).map_err(|x| e(format!("{x:?}")))
            }
            Family::NormalMeanCv => {
                need(spec, 2, 0)?;
                Normal::<$F>::from_mean_cv(p[0], p[1]).map(es::<_, $F>).map_err(|x| e(format!("{x:?}")))
            }
            Family::LogNormal => {
                need(spec, 2, 0)?;
                LogNormal::<$F>::new(p[0], p[1]).map(es::<_, $F>).map_err(|x| e(format!("{x:?}")))
            }
            Family::LogNormalMeanCv => {
                need(spec, 2, 0)?;
                LogNormal::<$F>::from_mean_cv(p[0], p[1])
                    .map(es::<_, $F>)
                    .map_err(|x| e(format!("{x:?}")))
            }
            Family::Exp => {
                need(spec, 1, 0)?;
                Exp::<$F>::new(p[0]).map(es::<_, $F>).map_err(|x| e(format!("{x:?}")))
            }
            Family::Gamma => {
                need(spec, 2, 0)?;
                Gamma::<$F>::new(p[0], p[1]).map(es::<_, $F>).map_err(|x| e(format!("{x:?}")))
            }
            Family::ChiSquared => {
                need(spec, 1, 0)?;
                ChiSquared::<$F>::new(p[0]).map(es::<_, $F>).map_err(|x| e(format!("{x:?}")))
            }
            Family::StudentT => {
                need(spec, 1, 0)?;
                StudentT::<$F>::new(p[0]).map(es::<_, $F>).map_err(|x| e(format!("{x:?}")))
            }
            Family::FisherF => {
                need(spec, 2, 0)?;
                FisherF::<$F>::new(p[0], p[1]).map(es::<_, $F>).map_err(|x| e(format!("{x:?}")))
            }
            Family::Beta => {
                need(spec, 2, 0)?;
                Beta::<$F>::new(p[0], p[1]).map(es::<_, $F>).map_err(|x| e(format!("{x:?}")))
            }
            Family::Pert => {
                // min, max, mode, shape
                need(spec, 4, 0)?;
                Pert::<$F>::new(p[0], p[1])
                    .with_shape(p[3])
                    .with_mode(p[2])
                    .map(es::<_, $F>)
                    .map_err(|x| e(format!("{x:?}")))
            }
            Family::PertMean => {
                // min, max, mean, shape
                need(spec, 4, 0)?;
                Pert::<$F>::new(p[0], p[1])
                    .with_shape(p[3])
                    .with_mean(p[2])
                    .map(es::<_, $F>)
                    .map_err(|x| e(format!("{x:?}")))
            }
            Family::Triangular => {
                // min, max, mode
                need(spec, 3, 0)?;
                Triangular::<$F>::new(p[0], p[1], p[2])
                    .map(es::<_, $F>)
                    .map_err(|x| e(format!("{x:?}")))
            }
            Family::Cauchy => {
                need(spec, 2, 0)?;
                Cauchy::<$F>::new(p[0], p[1]).map(es::<_, $F>).map_err(|x| e(format!("{x:?}")))
            }
            Family::Pareto => {
                need(spec, 2, 0)?;
                Pareto::<$F>::new(p[0], p[1]).map(es::<_, $F>).map_err(|x| e(format!("{x:?}")))
            }
            Family::Weibull => {
                need(spec, 2, 0)?;
                Weibull::<$F>::new(p[0], p[1]).map(es::<_, $F>).map_err(|x| e(format!("{x:?}")))
            }
            Family::Gumbel => {
                need(spec, 2, 0)?;
                Gumbel::<$F>::new(p[0], p[1]).map(es::<_, $F>).map_err(|x| e(format!("{x:?}")))
            }
            Family::Frechet => {
                need(spec, 3, 0)?;
                Frechet::<$F>::new(p[0], p[1], p[2])
                    .map(es::<_, $F>)
                    .map_err(|x| e(format!("{x:?}")))
            }
            Family::SkewNormal => {
                need(spec, 3, 0)?;
                SkewNormal::<$F>::new(p[0], p[1], p[2])
                    .map(es::<_, $F>)
                    .map_err(|x| e(format!("{x:?}")))
            }
            Family::InverseGaussian => {
                need(spec, 2, 0)?;
                InverseGaussian::<$F>::new(p[0], p[1])
                    .map(es::<_, $F>)
                    .map_err(|x| e(format!("{x:?}")))
            }
            Family::Nig => {
                need(spec, 2, 0)?;
                NormalInverseGaussian::<$F>::new(p[0], p[1])
                    .map(es::<_, $F>)
                    .map_err(|x| e(format!("{x:?}")))
            }
            Family::Poisson => {
                need(spec, 1, 0)?;
                Poisson::<$F>::new(p[0]).map(es::<_, $F>).map_err(|x| e(format!("{x:?}")))
            }
            Family::Zipf => {
                need(spec, 2, 0)?;
                Zipf::<$F>::new(p[0], p[1]).map(eo::<_, $F>).map_err(|x| e(format!("{x:?}")))
            }
            Family::Zeta => {
                need(spec, 1, 0)?;
                Zeta::<$F>::new(p[0]).map(eo::<_, $F>).map_err(|x| e(format!("{x:?}")))
            }
            Family::Dirichlet => Dirichlet::<$F>::new(&p)
                .map(eo::<_, Vec<$F>>)
                .map_err(|x| e(format!("{x:?}"))),
            Family::UnitCircle => Ok(so::<_, [$F; 2]>(UnitCircle)),
            Family::UnitDisc => Ok(so::<_, [$F; 2]>(UnitDisc)),
            Family::UnitSphere => Ok(so::<_, [$F; 3]>(UnitSphere)),
            Family::UnitBall => Ok(so::<_, [$F; 3]>(UnitBall)),
            f => Err(format!("family {:?} has no float scalar form", f)),
        };
        r
    }};
}

macro_rules! build_weighted_int {
    ($W:ty, $spec:expr) => {{
        let spec: &DistSpec = $spec;
        let ws: Vec<$W> = spec.n.iter().map(|&x| x as $W).collect();
        match spec.family {
            Family::Alias => WeightedAliasIndex::<$W>::new(ws)
                .map(so::<_, usize>)
                .map_err(|x| format!("{}: {x:?}", spec.label())),
            Family::Tree => WeightedTreeIndex::<$W>::new(ws)
                .map(es::<_, usize>)
                .map_err(|x| format!("{}: {x:?}", spec.label())),
            _ => unreachable!(),
        }
    }};
}
macro_rules! build_weighted_float {
    ($W:ty, $spec:expr) => {{
        let spec: &DistSpec = $spec;
        let ws: Vec<$W> = spec.p.iter().map(|&x| x as $W).collect();
        match spec.family {
            Family::Alias => WeightedAliasIndex::<$W>::new(ws)
                .map(so::<_, usize>)
                .map_err(|x| format!("{}: {x:?}", spec.label())),
            Family::Tree => {
                // n[0] = how the value is reached: 0 new(ws); 1 pushes; 2 new(ones) then
                // update to ws; 3 new(ws), then every third weight set to 0 and back
                let mode = spec.n.first().copied().unwrap_or(0);
                let e = |x: rand_distr::weighted::Error| format!("{}: {x:?}", spec.label());
                let t = match mode {
                    1 => {
                        let mut t = WeightedTreeIndex::<$W>::new(Vec::<$W>::new()).map_err(e)?;
                        for w in &ws {
                            t.push(*w).map_err(e)?;
                        }
                        t
                    }
                    2 => {
                        let mut t = WeightedTreeIndex::<$W>::new(vec![1.0 as $W; ws.len()]).map_err(e)?;
                        for (i, w) in ws.iter().enumerate() {
                            t.update(i, *w).map_err(e)?;
                        }
                        t
                    }
                    3 => {
                        let mut t = WeightedTreeIndex::<$W>::new(ws.clone()).map_err(e)?;
                        for i in (0..ws.len()).step_by(3) {
                            t.update(i, 0.0).map_err(e)?;
                            t.update(i, ws[i]).map_err(e)?;
                        }
                        t
                    }
                    _ => WeightedTreeIndex::<$W>::new(ws).map_err(e)?,
                };
                Ok(es::<_, usize>(t))
            }
            _ => unreachable!(),
        }
    }};
}

/// Call the real constructor.  `Err` means the constructor rejected the parameters.
pub fn build(spec: &DistSpec) -> Result<Box<dyn Obj>, String> {
    match spec.family {
        Family::Binomial => {
            need(spec, 1, 1)?;
            Binomial::new(spec.n[0], spec.p[0])
                .map(es::<_, u64>)
                .map_err(|x| format!("{}: {x:?}", spec.label()))
        }
        Family::Geometric => {
            need(spec, 1, 0)?;
            Geometric::new(spec.p[0]).map(es::<_, u64>).map_err(|x| format!("{}: {x:?}", spec.label()))
        }
        Family::StandardGeometric => Ok(so::<_, u64>(StandardGeometric)),
        Family::Hypergeometric => {
            need(spec, 0, 3)?;
            Hypergeometric::new(spec.n[0], spec.n[1], spec.n[2])
                .map(es::<_, u64>)
                .map_err(|x| format!("{}: {x:?}", spec.label()))
        }
        Family::Alias | Family::Tree => match spec.wty.ok_or("weighted spec without wty")? {
            WTy::U8 => build_weighted_int!(u8, spec),
            WTy::U16 => build_weighted_int!(u16, spec),
            WTy::U32 => build_weighted_int!(u32, spec),
            WTy::U64 => build_weighted_int!(u64, spec),
            WTy::U128 => build_weighted_int!(u128, spec),
            WTy::Usize => build_weighted_int!(usize, spec),
            WTy::I8 => build_weighted_int!(i8, spec),
            WTy::I16 => build_weighted_int!(i16, spec),
            WTy::I32 => build_weighted_int!(i32, spec),
            WTy::I64 => build_weighted_int!(i64, spec),
            WTy::I128 => build_weighted_int!(i128, spec),
            WTy::F32 => build_weighted_float!(f32, spec),
            WTy::F64 => build_weighted_float!(f64, spec),
        },
        _ => match spec.scalar {
            Scalar::F32 => build_float_family!(f32, spec),
            Scalar::F64 => build_float_family!(f64, spec),
            Scalar::None => Err(format!("{:?} needs a float scalar", spec.family)),
        },
    }
}

/// Constructors can panic (known: Hypergeometric::new overflow). Catch that and
/// report it as a constructor failure (C04 territory, not judged here).
pub fn build_caught(spec: &DistSpec) -> Result<Box<dyn Obj>, String> {
    // constructors are not timed by the per-call hang watchdog (C05 is about sample())
    match crate::runner::unwatched(|| std::panic::catch_unwind(|| build(spec))) {
        Ok(r) => r,
        Err(_) => Err(format!("{}: constructor panicked: {}", spec.label(), crate::runner::take_panic_message())),
    }
}
