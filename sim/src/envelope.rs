//! Parameter envelope E (DESIGN §4): fixed grids that straddle every documented
//! algorithm switch, and seeded random interior points.

use crate::registry::{DistSpec, Family, Scalar};
use crate::simrng::SimRng;

pub const CONT_FAMILIES: [Family; 22] = [
    Family::StandardNormal,
    Family::Normal,
    Family::LogNormal,
    Family::LogNormalMeanCv,
    Family::Exp1,
    Family::Exp,
    Family::Gamma,
    Family::ChiSquared,
    Family::StudentT,
    Family::FisherF,
    Family::Beta,
    Family::Pert,
    Family::PertMean,
    Family::Triangular,
    Family::Cauchy,
    Family::Pareto,
    Family::Weibull,
    Family::Gumbel,
    Family::Frechet,
    Family::SkewNormal,
    Family::InverseGaussian,
    Family::Nig,
];

pub const DISC_FLOAT_FAMILIES: [Family; 3] = [Family::Poisson, Family::Zipf, Family::Zeta];
pub const DISC_INT_FAMILIES: [Family; 4] =
    [Family::Binomial, Family::Geometric, Family::StandardGeometric, Family::Hypergeometric];
pub const GEOM_FAMILIES: [Family; 4] =
    [Family::UnitCircle, Family::UnitDisc, Family::UnitSphere, Family::UnitBall];

/// uniform in [0,1) from a SimRng used as the scheduler's PRNG
pub fn u01(r: &mut SimRng) -> f64 {
    (r.word() >> 11) as f64 * (1.0 / (1u64 << 53) as f64)
}
pub fn below(r: &mut SimRng, n: u64) -> u64 {
    ((r.word() as u128 * n as u128) >> 64) as u64
}
/// log-uniform in [lo, hi]
pub fn logu(r: &mut SimRng, lo: f64, hi: f64) -> f64 {
    (lo.ln() + u01(r) * (hi.ln() - lo.ln())).exp()
}
pub fn lin(r: &mut SimRng, lo: f64, hi: f64) -> f64 {
    lo + u01(r) * (hi - lo)
}
fn sign(r: &mut SimRng) -> f64 {
    if r.word() & 1 == 0 {
        1.0
    } else {
        -1.0
    }
}

fn big(s: Scalar) -> f64 {
    if s == Scalar::F32 {
        1e6
    } else {
        1e30
    }
}
fn small(s: Scalar) -> f64 {
    if s == Scalar::F32 {
        1e-6
    } else {
        1e-30
    }
}

/// Fixed grid for the continuous families (C01 and everything derived from it).
pub fn cont_grid(fam: Family, s: Scalar) -> Vec<DistSpec> {
    let f32_ = s == Scalar::F32;
    let b = big(s);
    let sm = small(s);
    let ps: Vec<Vec<f64>> = match fam {
        Family::StandardNormal | Family::Exp1 => vec![vec![]],
        Family::Normal => vec![
            vec![0.0, 1.0],
            vec![-3.5, 2.0],
            vec![5.0, -2.0],
            vec![1e6, 1e-3],
            vec![0.0, b],
            vec![0.0, sm],
            vec![-b, b],
            vec![1.0, -sm],
        ],
        Family::LogNormal => {
            if f32_ {
                vec![vec![0.0, 1.0], vec![-5.0, 3.0], vec![5.0, 1e-3], vec![3.0, 0.25], vec![0.0, 3.0]]
            } else {
                vec![vec![0.0, 1.0], vec![-20.0, 5.0], vec![20.0, 1e-3], vec![3.0, 0.25], vec![0.0, 5.0]]
            }
        }
        Family::LogNormalMeanCv => vec![vec![1.0, 1.0], vec![10.0, 0.1], vec![0.5, 3.0], vec![50.0, 0.03], vec![3.0, 0.02], vec![2.0, 0.01]],
        Family::Exp => vec![vec![1.0], vec![sm], vec![b], vec![2.5]],
        Family::Gamma => {
            let ks: Vec<f64> = if f32_ {
                vec![0.05, 0.1, 0.5, 0.999, 1.0, 1.001, 2.0, 10.0, 1e3, 1e4]
            } else {
                vec![0.01, 0.1, 0.5, 0.999, 1.0, 1.001, 2.0, 10.0, 1e3, 1e5]
            };
            let mut v: Vec<Vec<f64>> = ks.into_iter().map(|k| vec![k, 1.0]).collect();
            v.push(vec![0.5, b]);
            v.push(vec![2.0, sm]);
            v.push(vec![3.0, 2.5]);
            v.push(vec![1.0, 2.5]);
            v
        }
        Family::ChiSquared => {
            let ks: Vec<f64> = if f32_ {
                vec![0.1, 0.5, 0.999, 1.0, 1.001, 2.0, 3.0, 10.0, 1e3, 2e4]
            } else {
                vec![0.02, 0.5, 0.999, 1.0, 1.001, 2.0, 3.0, 10.0, 1e3, 2e5]
            };
            ks.into_iter().map(|k| vec![k]).collect()
        }
        Family::StudentT => {
            let ks: Vec<f64> = if f32_ {
                vec![0.5, 1.0, 2.0, 3.0, 10.0, 1e3, 1e4]
            } else {
                vec![0.1, 0.5, 1.0, 2.0, 3.0, 10.0, 1e3, 1e5]
            };
            ks.into_iter().map(|k| vec![k]).collect()
        }
        Family::FisherF => {
            if f32_ {
                vec![
                    vec![0.5, 0.5],
                    vec![1.0, 1.0],
                    vec![1.0, 5.0],
                    vec![5.0, 1.0],
                    vec![2.0, 2.0],
                    vec![2.0, 7.0],
                    vec![10.0, 20.0],
                    vec![1e3, 1e3],
                    vec![0.5, 100.0],
                    vec![100.0, 0.5],
                ]
            } else {
                vec![
                    vec![0.1, 0.1],
                    vec![1.0, 1.0],
                    vec![1.0, 5.0],
                    vec![5.0, 1.0],
                    vec![2.0, 2.0],
                    vec![2.0, 7.0],
                    vec![10.0, 20.0],
                    vec![1e4, 1e4],
                    vec![0.5, 100.0],
                    vec![100.0, 0.5],
                    vec![1e4, 0.1],
                ]
            }
        }
        Family::Beta => {
            let (lo, hi) = if f32_ { (0.05, 1e3) } else { (0.01, 1e4) };
            vec![
                vec![lo, lo],
                vec![0.1, 0.1],
                vec![0.5, 0.5],
                vec![1.0, 1.0],
                vec![0.5, 2.0],
                vec![2.0, 0.5],
                vec![1.0, 3.0],
                vec![3.0, 1.0],
                vec![1.001, 1.001],
                vec![2.0, 2.0],
                vec![2.0, 5.0],
                vec![5.0, 2.0],
                vec![lo, hi],
                vec![hi, lo],
                vec![hi, hi],
                vec![100.0, 1.0],
                vec![0.999, 5.0],
                vec![1.5, 1.0],
            ]
        }
        Family::Pert => {
            // min, max, mode, shape
            let mut v = vec![
                vec![0.0, 1.0, 0.5, 4.0],
                vec![0.0, 1.0, 0.0, 4.0],
                vec![0.0, 1.0, 1.0, 4.0],
                vec![0.0, 1.0, 0.3, 0.0],
                vec![-5.0, 10.0, 2.0, 4.0],
                vec![0.0, 1.0, 0.2, 100.0],
                vec![-1.0, 1.0, 0.0, 1.0],
            ];
            if f32_ {
                v.push(vec![1000.0, 1004.0, 1001.0, 4.0]);
            } else {
                v.push(vec![1e6, 1e6 + 4.0, 1e6 + 1.0, 4.0]);
                v.push(vec![0.0, 1e30, 1e29, 4.0]);
            }
            v
        }
        Family::PertMean => vec![vec![0.0, 1.0, 0.5, 4.0], vec![0.0, 10.0, 3.0, 2.0]],
        Family::Triangular => {
            // min, max, mode
            let mut v = vec![
                vec![0.0, 1.0, 0.5],
                vec![0.0, 1.0, 0.0],
                vec![0.0, 1.0, 1.0],
                vec![-5.0, 10.0, 2.0],
                vec![-1.0, 1.0, 0.9],
                vec![0.0, b, b / 10.0],
                // small ranges close to zero (absolute-vs-relative tolerance mistakes)
                vec![-0.005, 0.005, 0.0],
                vec![0.0, 0.01, 0.003],
                vec![0.0, 1e-3, 7e-4],
                vec![0.0, sm * 1024.0, sm * 512.0],
            ];
            if f32_ {
                v.push(vec![1000.0, 1004.0, 1001.0]);
            } else {
                v.push(vec![1e6, 1e6 + 4.0, 1e6 + 1.0]);
            }
            v
        }
        Family::Cauchy | Family::Gumbel => vec![
            vec![0.0, 1.0],
            vec![-3.0, 2.5],
            vec![1e3, 1.0],
            vec![0.0, b],
            vec![0.0, sm],
            vec![-b, 1.0],
            vec![1e6, 1e-3],
        ],
        Family::Pareto => {
            let (lo, hi) = if f32_ { (0.25, 1e3) } else { (0.06, 1e4) };
            vec![vec![1.0, 1.0], vec![1.0, lo], vec![1.0, hi], vec![b, 2.0], vec![sm, 3.0], vec![2.5, 1.5]]
        }
        Family::Weibull => {
            let (lo, hi) = if f32_ { (0.05, 1e2) } else { (0.006, 1e3) };
            vec![vec![1.0, 1.0], vec![1.0, lo], vec![1.0, hi], vec![b, 2.0], vec![sm, 0.5], vec![2.5, 1.5]]
        }
        Family::Frechet => {
            let (lo, hi) = if f32_ { (0.25, 1e2) } else { (0.06, 1e3) };
            vec![
                vec![0.0, 1.0, 1.0],
                vec![0.0, 1.0, lo],
                vec![0.0, 1.0, hi],
                vec![-3.0, 2.5, 1.5],
                vec![0.0, 1.0, 1.0 / 3.0],
                vec![0.0, 1.0, 0.2],
                vec![0.0, 1.0, 0.5],
                vec![1e3, 1e-3, 2.0],
                vec![0.0, b, 2.0],
            ]
        }
        Family::SkewNormal => vec![
            vec![0.0, 1.0, 0.0],
            vec![0.0, 1.0, 1.0],
            vec![0.0, 1.0, -1.0],
            vec![0.0, 1.0, 5.0],
            vec![0.0, 1.0, -0.5],
            vec![0.0, 1.0, 1e3],
            vec![0.0, 1.0, -1e3],
            vec![-3.0, 2.5, 2.0],
            vec![0.0, b, 1.5],
            vec![1.0, sm, -2.0],
        ],
        Family::InverseGaussian => vec![
            vec![1.0, 1.0],
            vec![1.0, 1e3],
            vec![1.0, 1e-3],
            vec![1.0, 0.01],
            vec![1.0, 100.0],
            vec![b, b],
            vec![sm, sm],
            vec![2.5, 1.5],
            vec![100.0, 1.0],
            vec![1e3, 1.0],
        ],
        Family::Nig => vec![
            vec![1.0, 0.0],
            vec![1.0, 0.5],
            vec![1.0, -0.98],
            vec![0.01, 0.0],
            vec![100.0, 50.0],
            vec![100.0, -99.0],
            vec![2.0, 1.0],
            vec![50.0, 0.0],
            vec![0.01, 0.0099],
        ],
        _ => vec![],
    };
    ps.into_iter().map(|p| DistSpec::f(fam, s, &p)).collect()
}

/// Membership in the envelope E of DESIGN section 4 (continuous and float-parameter discrete
/// families).  Used to keep systematically generated points (special-value cross, magnitude
/// cross) inside the quantifier of the law properties.
pub fn in_envelope(spec: &DistSpec) -> bool {
    let f32_ = spec.scalar == Scalar::F32;
    let p = &spec.p;
    if p.iter().any(|x| !x.is_finite()) {
        return false;
    }
    let (wlo, whi) = if f32_ { (1e-6, 1e6) } else { (1e-30, 1e30) };
    let w = |x: f64| x >= wlo && x <= whi; // magnitude in W
    let pm_w = |x: f64| x == 0.0 || w(x.abs()); // location: 0 or magnitude in W
    let between = |x: f64, lo64: f64, hi64: f64, lo32: f64, hi32: f64| if f32_ { x >= lo32 && x <= hi32 } else { x >= lo64 && x <= hi64 };
    match spec.family {
        Family::StandardNormal | Family::Exp1 => true,
        Family::Normal => pm_w(p[0]) && w(p[1].abs()),
        Family::LogNormal => between(p[0].abs(), 0.0, 20.0, 0.0, 5.0) && between(p[1].abs(), 1e-3, 5.0, 1e-3, 3.0),
        Family::LogNormalMeanCv | Family::NormalMeanCv => p[0] >= 1e-3 && p[0] <= 1e3 && p[1] >= 1e-3 && p[1] <= 10.0,
        Family::Exp => w(p[0]),
        Family::Gamma => between(p[0], 0.01, 1e5, 0.05, 1e4) && w(p[1]),
        Family::ChiSquared => between(p[0], 0.02, 2e5, 0.1, 2e4),
        Family::StudentT => between(p[0], 0.1, 1e5, 0.5, 1e4),
        Family::FisherF => between(p[0], 0.1, 1e4, 0.5, 1e3) && between(p[1], 0.1, 1e4, 0.5, 1e3),
        Family::Beta => between(p[0], 0.01, 1e4, 0.05, 1e3) && between(p[1], 0.01, 1e4, 0.05, 1e3),
        Family::Pert | Family::PertMean | Family::Triangular => {
            let (lo, hi) = (p[0], p[1]);
            let big = lo.abs().max(hi.abs());
            let rel = if f32_ { 2.0_f64.powi(-10) } else { 2.0_f64.powi(-20) };
            pm_w(lo) && pm_w(hi) && hi > lo && hi - lo >= rel * big && (p.len() < 4 || (p[3] >= 0.0 && p[3] <= 100.0))
        }
        Family::Cauchy | Family::Gumbel => pm_w(p[0]) && w(p[1]),
        Family::Pareto => w(p[0]) && between(p[1], 0.06, 1e4, 0.25, 1e3),
        Family::Weibull => w(p[0]) && between(p[1], 0.006, 1e3, 0.05, 1e2),
        Family::Frechet => pm_w(p[0]) && w(p[1]) && between(p[2], 0.06, 1e3, 0.25, 1e2),
        Family::SkewNormal => pm_w(p[0]) && w(p[1]) && p[2].abs() <= 1e3,
        Family::InverseGaussian => w(p[0]) && p[1] > 0.0 && p[0] / p[1] >= 1e-3 && p[0] / p[1] <= 1e3,
        Family::Nig => p[0] >= 1e-2 && p[0] <= 1e2 && p[1].abs() <= 0.99 * p[0],
        Family::Poisson => between(p[0], 1e-3, 1e15, 1e-3, 1e6),
        Family::Zipf => between(p[0], 1.0, 1e15, 1.0, 1e6) && p[1] >= 0.0 && p[1] <= 20.0,
        Family::Zeta => p[0] >= 1.02 && p[0] <= 100.0,
        _ => true,
    }
}

/// A generic interior point of E with no round value in it (moderate magnitudes).
fn generic_base(fam: Family) -> Option<Vec<f64>> {
    Some(match fam {
        Family::Normal | Family::Cauchy | Family::Gumbel => vec![-2.3, 3.1],
        Family::LogNormal => vec![0.7, 0.6],
        Family::LogNormalMeanCv => vec![2.3, 0.6],
        Family::Exp => vec![3.1],
        Family::Gamma => vec![2.3, 3.1],
        Family::ChiSquared | Family::StudentT => vec![4.6],
        Family::FisherF => vec![4.6, 7.3],
        Family::Beta => vec![2.3, 3.1],
        Family::Pert | Family::PertMean => vec![-2.3, 3.1, 0.7, 4.6],
        Family::Triangular => vec![-2.3, 3.1, 0.7],
        Family::Pareto | Family::Weibull => vec![3.1, 2.3],
        Family::Frechet => vec![-2.3, 3.1, 2.3],
        Family::SkewNormal => vec![-2.3, 3.1, 1.7],
        Family::InverseGaussian => vec![2.3, 3.1],
        Family::Nig => vec![3.1, 1.7],
        Family::Poisson => vec![7.3],
        Family::Zeta => vec![2.3],
        Family::Zipf => vec![1000.0, 2.3],
        _ => return None,
    })
}

/// Special-value cross: every parameter of a generic (non-round) point replaced in turn by
/// a value at which implementations tend to branch -- 1, 2, 1/2, 3 -- and by neighbours of 1
/// and 2 at relative distance 2^-12 (inside any "close enough to 1" tolerance of the order of
/// sqrt(eps_f32), where the law must still be that of the actual parameter).  The other
/// parameters stay generic: a shortcut taken at shape == 1 that is only right when scale == 1
/// as well cannot hide behind a grid of round values.  Only points the constructor accepts
/// are used (callers build them); the first parameter of Zipf (n) is not varied.
pub fn special_cross(fam: Family, s: Scalar) -> Vec<DistSpec> {
    let Some(base) = generic_base(fam) else { return vec![] };
    let d = 2.0_f64.powi(-12);
    // closer neighbours (relative 2^-15 = 3e-5): inside a tolerance of ~1000 eps_f32; powers
    // of two and 10: fast paths for "integral power of two" exponents, round decimal values
    let e = 2.0_f64.powi(-15);
    let specials = [
        1.0,
        2.0,
        0.5,
        3.0,
        1.0 + d,
        1.0 - d,
        2.0 + 2.0 * d,
        2.0 - 2.0 * d,
        1.0 + e,
        1.0 - e,
        0.5 * (1.0 + e),
        (1.0 / 3.0) * (1.0 - e),
        0.25 * (1.0 + e),
        // a ladder of closeness to 1 (tolerances of 100 eps_f32 ~ 1e-5, 10 eps ~ 1e-6)
        1.0 + e / 8.0,
        1.0 - e / 8.0,
        1.0 + e / 64.0,
        1.0 - e / 64.0,
        2.0 * (1.0 + e / 8.0),
        0.5 * (1.0 - e / 8.0),
        4.0,
        8.0,
        16.0,
        64.0,
        10.0,
    ];
    let mut v = Vec::new();
    for i in 0..base.len() {
        if fam == Family::Zipf && i == 0 {
            continue;
        }
        for &x in &specials {
            let mut p = base.clone();
            p[i] = x;
            // NIG needs |beta| < alpha; Zeta needs s > 1
            if fam == Family::Nig && p[1].abs() >= 0.99 * p[0] {
                continue;
            }
            if fam == Family::Zeta && !(p[0] > 1.0) {
                continue;
            }
            let spec = DistSpec::f(fam, s, &p);
            if in_envelope(&spec) {
                v.push(spec);
            }
        }
    }
    v
}

/// Magnitude cross for the location-scale families whose single draw is enumerated (C13):
/// the generic point with all its location / scale parameters multiplied by 10^k.  A guard
/// that compares a range or a scale with an absolute epsilon, or a rewrite through
/// `exp(ln(scale) + ..)`, is exact near 1 and wrong far from it.
pub fn magnitude_cross(fam: Family, s: Scalar) -> Vec<DistSpec> {
    let Some(base) = generic_base(fam) else { return vec![] };
    // which parameters are positively homogeneous of degree 1
    let hom: &[usize] = match fam {
        Family::Cauchy | Family::Gumbel => &[0, 1],
        Family::Frechet => &[0, 1],
        Family::Weibull | Family::Pareto => &[0],
        Family::Triangular => &[0, 1, 2],
        _ => return vec![],
    };
    // inside E: magnitudes in W(F) = [1e-6, 1e6] (f32), [1e-30, 1e30] (f64); the generic
    // values are between 0.7 and 3.1.  (Outside W the unchanged Triangular<f32> itself
    // underflows / overflows in its intermediate product: seen at 1e-30 and 1e20, not judged.)
    let ks: &[i32] = if s == Scalar::F32 { &[-6, -4, 4, 5] } else { &[-30, -10, 10, 29] };
    let mut v = Vec::new();
    // narrow intervals: two parameters that nearly coincide at a small, a moderate and a
    // large magnitude (an absolute-epsilon guard on max - min is wrong at the small one)
    if fam == Family::Triangular {
        let (lo, hi) = if s == Scalar::F32 { (2e-6, 3e5) } else { (2e-30, 3e29) };
        for c in [lo, 1.0, hi, -lo, -1.0] {
            for wdt in [0.05, 2.0_f64.powi(-8)] {
                let (a, b) = if c > 0.0 { (c, c * (1.0 + wdt)) } else { (c * (1.0 + wdt), c) };
                let spec = DistSpec::f(fam, s, &[a, b, a + (b - a) * 0.3]);
                if in_envelope(&spec) {
                    v.push(spec);
                }
            }
        }
    }
    for &k in ks {
        let c = 10.0_f64.powi(k);
        let mut p = base.clone();
        for &i in hom {
            p[i] *= c;
        }
        let spec = DistSpec::f(fam, s, &p);
        if in_envelope(&spec) {
            v.push(spec);
        }
        // location 0: the scale alone carries the magnitude
        if hom.len() >= 2 && fam != Family::Triangular {
            let mut q = p.clone();
            q[0] = 0.0;
            let spec = DistSpec::f(fam, s, &q);
            if in_envelope(&spec) {
                v.push(spec);
            }
        }
    }
    v
}

/// Geometric: one p in every octave of E (the internal split exponent k takes every value
/// 1..=40 once): a wrong bound on k is wrong for a single k, i.e. one octave of p.
pub fn geometric_octaves() -> Vec<DistSpec> {
    (1..=40).map(|j| DistSpec::i(Family::Geometric, &[], &[0.75 * 2.0_f64.powi(-j)])).collect()
}

/// Random interior point of E for a continuous family.
pub fn cont_random(fam: Family, s: Scalar, r: &mut SimRng) -> DistSpec {
    let f32_ = s == Scalar::F32;
    let b = big(s);
    let sm = small(s);
    let w = |r: &mut SimRng| logu(r, sm, b);
    let loc = |r: &mut SimRng| {
        if below(r, 4) == 0 {
            0.0
        } else {
            sign(r) * logu(r, sm, b)
        }
    };
    // moderate location/scale (so that most random points are well resolved)
    let mloc = |r: &mut SimRng| lin(r, -10.0, 10.0);
    let mscale = |r: &mut SimRng| logu(r, 1e-2, 1e2);
    let p: Vec<f64> = match fam {
        Family::StandardNormal | Family::Exp1 => vec![],
        Family::Normal => {
            if below(r, 2) == 0 {
                vec![mloc(r), sign(r) * mscale(r)]
            } else {
                vec![loc(r), sign(r) * w(r)]
            }
        }
        Family::LogNormal => {
            if f32_ {
                vec![lin(r, -5.0, 5.0), logu(r, 1e-3, 3.0)]
            } else {
                vec![lin(r, -20.0, 20.0), logu(r, 1e-3, 5.0)]
            }
        }
        Family::LogNormalMeanCv => vec![logu(r, 1e-2, 1e2), logu(r, 1e-2, 3.0)],
        Family::Exp => vec![w(r)],
        Family::Gamma => {
            let k = if f32_ { logu(r, 0.05, 1e4) } else { logu(r, 0.01, 1e5) };
            vec![k, if below(r, 2) == 0 { mscale(r) } else { w(r) }]
        }
        Family::ChiSquared => vec![if f32_ { logu(r, 0.1, 2e4) } else { logu(r, 0.02, 2e5) }],
        Family::StudentT => vec![if f32_ { logu(r, 0.5, 1e4) } else { logu(r, 0.1, 1e5) }],
        Family::FisherF => {
            if f32_ {
                vec![logu(r, 0.5, 1e3), logu(r, 0.5, 1e3)]
            } else {
                vec![logu(r, 0.1, 1e4), logu(r, 0.1, 1e4)]
            }
        }
        Family::Beta => {
            if f32_ {
                vec![logu(r, 0.05, 1e3), logu(r, 0.05, 1e3)]
            } else {
                vec![logu(r, 0.01, 1e4), logu(r, 0.01, 1e4)]
            }
        }
        Family::Pert | Family::Triangular => {
            let min = if below(r, 3) == 0 { 0.0 } else { mloc(r) };
            // range >= 2^-10 (f32) / 2^-20 (f64) of the magnitude, per the envelope
            let range = if min == 0.0 { logu(r, 1e-5, 1e3) } else { logu(r, 1e-2, 1e3) };
            let max = min + range;
            let mode = match below(r, 6) {
                0 => min,
                1 => max,
                _ => min + u01(r) * range,
            };
            if fam == Family::Pert {
                let shape = if below(r, 5) == 0 { 0.0 } else { logu(r, 0.1, 100.0) };
                vec![min, max, mode, shape]
            } else {
                vec![min, max, mode]
            }
        }
        Family::PertMean => {
            let min = mloc(r);
            let range = logu(r, 1e-2, 1e3);
            let shape = logu(r, 0.5, 50.0);
            // mean must map to a mode inside [min,max]: mean in [min + range/(shape+2), max - range/(shape+2)]
            let lo = min + range / (shape + 2.0);
            let hi = min + range - range / (shape + 2.0);
            vec![min, min + range, lin(r, lo + 1e-3 * range, hi - 1e-3 * range), shape]
        }
        Family::Cauchy | Family::Gumbel => {
            if below(r, 2) == 0 {
                vec![mloc(r), mscale(r)]
            } else {
                vec![loc(r), w(r)]
            }
        }
        Family::Pareto => vec![w(r), if f32_ { logu(r, 0.25, 1e3) } else { logu(r, 0.06, 1e4) }],
        Family::Weibull => vec![w(r), if f32_ { logu(r, 0.05, 1e2) } else { logu(r, 0.006, 1e3) }],
        Family::Frechet => {
            let shape = if f32_ { logu(r, 0.25, 1e2) } else { logu(r, 0.06, 1e3) };
            vec![mloc(r), mscale(r), shape]
        }
        Family::SkewNormal => {
            let shape = match below(r, 6) {
                0 => 0.0,
                1 => 1.0,
                2 => -1.0,
                _ => sign(r) * logu(r, 1e-2, 1e3),
            };
            vec![mloc(r), mscale(r), shape]
        }
        Family::InverseGaussian => {
            let mean = if below(r, 2) == 0 { mscale(r) } else { w(r) };
            let ratio = logu(r, 1e-3, 1e3);
            let shape = (mean / ratio).clamp(sm, b);
            vec![mean, shape]
        }
        Family::Nig => {
            let a = logu(r, 1e-2, 1e2);
            let beta = if below(r, 4) == 0 { 0.0 } else { lin(r, -0.99, 0.99) * a };
            vec![a, beta]
        }
        _ => vec![],
    };
    DistSpec::f(fam, s, &p)
}

pub fn disc_grid(fam: Family, s: Scalar) -> Vec<DistSpec> {
    let f32_ = s == Scalar::F32;
    match fam {
        Family::Binomial => {
            let v: Vec<(u64, f64)> = vec![
                (1, 0.5),
                (10, 0.3),
                (30, 0.5),
                (20, 0.5),
                (19, 0.5),
                (100, 0.09),
                (100, 0.1),
                (100, 0.9),
                (100, 0.91),
                (50, 0.7),
                (200, 0.04),
                (1000, 0.5),
                (1_000_000, 0.3),
                (1u64 << 62, 0.5),
                (1u64 << 62, 0.999),
                (1u64 << 62, 1e-18),
                (1u64 << 40, 1e-11),
                (1_000_000_000, 1e-9),
                (10, 0.0),
                (10, 1.0),
                (45, 0.25),
                (41, 0.25),
                (30, 1.0 / 3.0),
                (1u64 << 31, 0.5),
                // p next to the rounding boundary 1 - p == 1 (2^-54) with n p of order 1
                (100_000_000_000_000_000, 4e-17),
                (1u64 << 56, 5.551115123125783e-17),
                (1u64 << 56, 5.6e-17),
                (1u64 << 57, 2.8e-17),
                (1u64 << 55, 1.4e-16),
                (1u64 << 60, 8e-18),
                (1u64 << 50, 3e-15),
                // pairs that agree in a derived constant (mode) but not in n
                (2000, 0.5),
                (4000, 0.25),
                (10_000_000_000, 1e-7),
                (20_000, 0.5),
                (100_000_000_000, 1e-7),
                // (n+1) p is an integer up to rounding: floor() in the mode computation sits
                // on its boundary, two algebraically equal formulas can disagree by one
                (50, 1.0 / 3.0),
                (200, 1.0 / 3.0),
                (39, 0.35),
                (99, 0.24),
                (99, 0.55),
                (109, 0.3),
                (9999, 0.35),
                (99_999, 0.3),
                (29, 0.4),
            ];
            v.into_iter().map(|(n, p)| DistSpec::i(fam, &[n], &[p])).collect()
        }
        Family::Poisson => {
            // non-integer lambda just above the method switch: floor/fraction mistakes
            let mut l = vec![1e-3, 0.5, 5.0, 11.9, 12.0, 12.1, 12.95, 13.9, 20.0, 20.9, 100.0, 100.5, 1e4, 1e6];
            if !f32_ {
                l.extend([1e8, 1e15]);
            }
            l.into_iter().map(|x| DistSpec::f(fam, s, &[x])).collect()
        }
        Family::Geometric => [1.0, 0.9, 2.0 / 3.0, 0.66, 0.5, 0.3, 0.1, 1e-3, 1e-6, 3e-10, 1.5e-10, 1e-12, 5e-10, 9e-10]
            .iter()
            .map(|&p| DistSpec::i(fam, &[], &[p]))
            .collect(),
        Family::StandardGeometric => vec![DistSpec::i(fam, &[], &[])],
        Family::Hypergeometric => {
            let v: Vec<[u64; 3]> = vec![
                [10, 5, 5],
                [40, 20, 20],
                [40, 20, 19],
                [41, 20, 20],
                [100, 50, 10],
                [100, 50, 22],
                [1000, 500, 100],
                [1000, 10, 500],
                [1001, 500, 500],
                [50, 45, 40],
                [500, 250, 250],
                [1_000_000, 1000, 1000],
                [1u64 << 40, 1u64 << 39, 1u64 << 20],
                [1u64 << 40, 1000, 1u64 << 39],
                [1u64 << 40, 1u64 << 39, 1u64 << 39],
                [60, 30, 21],
                [60, 30, 20],
                [200, 13, 150],
                // H2PE just above its threshold (mode 10..12): the end points of the support
                // still carry ~e^-10 of mass here
                // (n+1)(K+1)/(N+2) an exact integer: the mode's floor() on its boundary
                [998, 499, 19],
                [9998, 4999, 99],
                [98, 49, 9],
                [1u64 << 30, 103_622, 103_622],
                [1u64 << 30, (1u64 << 30) - 103_622, 103_622],
                [1u64 << 30, 103_622, (1u64 << 30) - 103_622],
                [1_000_000, 3400, 3400],
                [1000, 110, 100],
                [1000, 890, 100],
                [100_000, 1100, 1000],
            ];
            v.into_iter().map(|t| DistSpec::i(fam, &t, &[])).collect()
        }
        Family::Zipf => {
            let mut v: Vec<[f64; 2]> = vec![
                [1.0, 1.0],
                [2.0, 1.0],
                [10.0, 0.0],
                [10.0, 0.5],
                [10.0, 1.0],
                [10.0, 2.0],
                [100.0, 20.0],
                [1e6, 0.999],
                [1e6, 1.0],
                [1e6, 1.0001],
                [1000.0, 1.5],
                [1e6, 0.0],
            ];
            if !f32_ {
                v.extend([[1e15, 1.5], [1e15, 0.0], [1e15, 1.0], [1e15, 0.999]]);
            }
            v.into_iter().map(|t| DistSpec::f(fam, s, &t)).collect()
        }
        Family::Zeta => [1.02, 1.05, 1.2, 1.5, 2.0, 3.0, 10.0, 100.0]
            .iter()
            .map(|&x| DistSpec::f(fam, s, &[x]))
            .collect(),
        _ => vec![],
    }
}

pub fn disc_random(fam: Family, s: Scalar, r: &mut SimRng) -> DistSpec {
    let f32_ = s == Scalar::F32;
    match fam {
        Family::Binomial => {
            let n = match below(r, 4) {
                0 => 1 + below(r, 30),
                1 => 1 + below(r, 1000),
                2 => logu(r, 1e3, 1e9) as u64,
                _ => logu(r, 1e9, 4.6e18) as u64,
            };
            let p = match below(r, 4) {
                0 => u01(r),
                1 => (logu(r, 0.5, 30.0) / n as f64).min(1.0),
                2 => 1.0 - (logu(r, 0.5, 30.0) / n as f64).min(1.0),
                _ => logu(r, 1e-6, 0.5),
            };
            DistSpec::i(fam, &[n], &[p])
        }
        Family::Poisson => {
            let l = if below(r, 3) == 0 {
                lin(r, 8.0, 16.0)
            } else if f32_ {
                logu(r, 1e-3, 1e6)
            } else {
                logu(r, 1e-3, 1e15)
            };
            DistSpec::f(fam, s, &[l])
        }
        Family::Geometric => {
            let p = if below(r, 2) == 0 { u01(r).max(1e-12) } else { logu(r, 1e-12, 1.0) };
            DistSpec::i(fam, &[], &[p])
        }
        Family::StandardGeometric => DistSpec::i(fam, &[], &[]),
        Family::Hypergeometric => {
            let total = match below(r, 3) {
                0 => 1 + below(r, 40),
                1 => 1 + below(r, 2000),
                _ => logu(r, 1e3, 1.09e12) as u64,
            };
            let feature = below(r, total + 1);
            let draws = below(r, total + 1);
            DistSpec::i(fam, &[total, feature, draws], &[])
        }
        Family::Zipf => {
            let n = if f32_ { logu(r, 1.0, 1e6) } else { logu(r, 1.0, 1e15) }.floor().max(1.0);
            let sx = match below(r, 5) {
                0 => 0.0,
                1 => 1.0,
                2 => lin(r, 0.9, 1.1),
                _ => logu(r, 0.05, 20.0),
            };
            DistSpec::f(fam, s, &[n, sx])
        }
        Family::Zeta => DistSpec::f(fam, s, &[1.0 + logu(r, 0.02, 99.0)]),
        _ => unreachable!(),
    }
}

/// Alpha vectors for Dirichlet (C11).
pub fn dirichlet_grid(s: Scalar) -> Vec<DistSpec> {
    let f32_ = s == Scalar::F32;
    let (lo, hi) = if f32_ { (1e-2, 1e3) } else { (1e-3, 1e4) };
    let tenth_up = if f32_ { f32::from_bits(0.1f32.to_bits() + 1) as f64 } else { f64::from_bits(0.1f64.to_bits() + 1) };
    let mut v: Vec<Vec<f64>> = vec![
        vec![0.05, 0.05],
        vec![0.1, 0.1, 0.1],
        vec![0.1, 0.1, tenth_up],
        vec![0.09, 0.1, 0.05, 0.02],
        vec![1.0, 1.0, 1.0],
        vec![0.5, 2.0, 10.0],
        vec![lo, lo],
        vec![hi, hi, hi],
        vec![0.01, 5.0],
        vec![1000.0, 1.0, 0.01],
        vec![2.0, 3.0],
        vec![0.3, 0.3, 0.3, 0.3, 0.3],
        vec![lo, 0.1, 0.05],
    ];
    v.push(vec![0.1; 64]);
    v.push(vec![1.0; 64]);
    v.push((0..20).map(|i| 0.2 + i as f64).collect());
    v.into_iter().map(|p| DistSpec::f(Family::Dirichlet, s, &p)).collect()
}

pub fn dirichlet_random(s: Scalar, r: &mut SimRng) -> DistSpec {
    let f32_ = s == Scalar::F32;
    let (lo, hi): (f64, f64) = if f32_ { (1e-2, 1e3) } else { (1e-3, 1e4) };
    let span = if below(r, 4) == 0 { 63 } else { 7 };
    let len = 2 + below(r, span) as usize;
    let mode = below(r, 4);
    let p: Vec<f64> = (0..len)
        .map(|_| match mode {
            0 => logu(r, lo, 0.1),
            1 => logu(r, 0.1001, hi.min(100.0)),
            2 => logu(r, lo, hi),
            _ => logu(r, 0.05, 0.2),
        })
        .collect();
    DistSpec::f(Family::Dirichlet, s, &p)
}

/// A few weighted-index objects for the engines that treat them as ordinary
/// distributions (C03 adversarial words, C14, C15).  Histories are C09/C10's job.
pub fn weighted_specs() -> Vec<DistSpec> {
    let mut v = Vec::new();
    for fam in [Family::Alias, Family::Tree] {
        for wty in crate::registry::ALL_WTY {
            if wty.is_float() {
                for ws in [
                    vec![1.0],
                    vec![1.0, 2.0, 3.0],
                    vec![0.0, 0.5, 0.0, 0.25],
                    vec![0.125, 0.25, 0.5, 1.0, 2.0, 4.0, 8.0],
                    vec![1.0; 9],
                    vec![0.1, 0.2, 0.3, 0.4, 0.5, 0.6, 0.7],
                ] {
                    v.push(DistSpec::w_float(fam, wty, &ws));
                }
                {
                    // decimal (non-dyadic) weights: alias columns whose sums do not close
                    // exactly leave "left-over" columns a few ulp below 100%
                    let mut r = SimRng::new(0xA11A5);
                    for _ in 0..12u64 {
                        let len = 2 + below(&mut r, 7) as usize;
                        let ws: Vec<f64> = (0..len).map(|_| (below(&mut r, 29) as f64 + 1.0) / 10.0).collect();
                        v.push(DistSpec::w_float(fam, wty, &ws));
                    }
                }
                if fam == Family::Tree {
                    // values reached through push / update histories and decimal weights with
                    // zeros at inner nodes (their internal sums are inexact)
                    let mut r = SimRng::new(0x7EE5);
                    for k in 0..24u64 {
                        let len = 3 + below(&mut r, 30) as usize;
                        let ws: Vec<f64> = (0..len)
                            .map(|_| if below(&mut r, 5) == 0 { 0.0 } else { (below(&mut r, 1000) as f64 + 1.0) / 10.0_f64.powi(below(&mut r, 4) as i32) })
                            .collect();
                        let mut sp = DistSpec::w_float(fam, wty, &ws);
                        sp.n = vec![k % 4];
                        v.push(sp);
                    }
                }
            } else {
                let max = wty.max_u128();
                let cap = |x: u128| x.min(u64::MAX as u128) as u64;
                let lists: Vec<Vec<u64>> = vec![
                    vec![1],
                    vec![1, 2],
                    vec![0, 3, 0],
                    vec![1, 2, 3, 4, 5, 6, 7],
                    vec![5; 8],
                    vec![0, 0, 1, 0, 0, 0, 0, 0, 2],
                    vec![cap(max / 3); 3],
                    vec![cap(max / 4), 0, 1, cap(max / 4)],
                ];
                for ws in lists {
                    v.push(DistSpec::w_int(fam, wty, &ws));
                }
                let long: Vec<u64> = (0..100).map(|i| (i * 7 + 1) % 11).map(|x| x.min(cap(max / 100))).collect();
                v.push(DistSpec::w_int(fam, wty, &long));
            }
        }
    }
    v
}

pub fn geom_specs() -> Vec<DistSpec> {
    let mut v = Vec::new();
    for fam in GEOM_FAMILIES {
        for s in [Scalar::F32, Scalar::F64] {
            v.push(DistSpec::f(fam, s, &[]));
        }
    }
    v
}

/// Constructor-accepted parameter vectors far OUTSIDE E (MIN_POSITIVE .. MAX in every
/// coordinate).  Used only by C05's last clause ("there is no parameter value that makes
/// sampling loop forever"): judged for termination only, nothing else.
pub fn extreme_specs() -> Vec<DistSpec> {
    let mut v = Vec::new();
    for s in [Scalar::F32, Scalar::F64] {
        let vals: Vec<f64> = if s == Scalar::F32 {
            vec![f32::MIN_POSITIVE as f64, 1e-30, 1e-19, 1e-3, 1.0, 1e3, 1e19, 3e38, f32::MAX as f64]
        } else {
            vec![f64::MIN_POSITIVE, 1e-300, 1e-154, 1e-3, 1.0, 1e3, 1e154, 1e300, f64::MAX]
        };
        let one = |f: Family, v: &mut Vec<DistSpec>| {
            for &a in &vals {
                v.push(DistSpec::f(f, s, &[a]));
            }
        };
        let two = |f: Family, v: &mut Vec<DistSpec>| {
            for &a in &vals {
                for &b in &vals {
                    v.push(DistSpec::f(f, s, &[a, b]));
                }
            }
        };
        for f in [Family::Exp, Family::ChiSquared, Family::StudentT, Family::Poisson, Family::Zeta] {
            one(f, &mut v);
        }
        // Zeta needs s > 1
        for d in [1e-15, 1e-10, 1e-5, 1e-3] {
            v.push(DistSpec::f(Family::Zeta, s, &[1.0 + d]));
        }
        for f in [
            Family::Gamma, Family::FisherF, Family::Beta, Family::Pareto, Family::Weibull, Family::InverseGaussian, Family::LogNormal, Family::Normal,
            Family::Cauchy, Family::Gumbel, Family::Zipf,
        ] {
            two(f, &mut v);
        }
        for &a in &vals {
            for &b in &[vals[0], 1.0, vals[8]] {
                v.push(DistSpec::f(Family::Frechet, s, &[0.0, b, a]));
                v.push(DistSpec::f(Family::SkewNormal, s, &[0.0, b, a]));
                v.push(DistSpec::f(Family::SkewNormal, s, &[0.0, b, -a]));
                v.push(DistSpec::f(Family::Nig, s, &[a, 0.0]));
                v.push(DistSpec::f(Family::Nig, s, &[a, a * 0.999]));
                v.push(DistSpec::f(Family::Dirichlet, s, &[a, b]));
                v.push(DistSpec::f(Family::Dirichlet, s, &[a, b, a]));
            }
        }
    }
    for &p in &[f64::MIN_POSITIVE, 1e-300, 1e-20, 1.0 - 1e-16, 0.5] {
        for &n in &[1u64, 1 << 20, 1 << 53, 1 << 62, u64::MAX] {
            v.push(DistSpec::i(Family::Binomial, &[n], &[p]));
        }
        v.push(DistSpec::i(Family::Geometric, &[], &[p]));
    }
    v
}

/// Parameter-regime tags used in violation signatures (known-finding matching).
pub fn regime_tags(spec: &DistSpec) -> Vec<String> {
    let mut t = Vec::new();
    let p = &spec.p;
    match spec.family {
        Family::InverseGaussian if p.len() == 2 => {
            if p[0] / p[1] >= 30.0 {
                t.push("ig:mean/shape>=30".into());
            }
            // milder form of the same cancellation: output granularity ~ eps * (mean/shape)^2,
            // atoms of mass ~ 5.4e-8 * (mean/shape)^2 >= 1e-6 in f32
            if spec.scalar == Scalar::F32 && p[0] / p[1] >= 4.3 {
                t.push("ig32:mean/shape>=4.3".into());
            }
        }
        Family::Nig if p.len() == 2 => {
            // inner IG has mean 1/gamma and shape 1
            let g = (p[0] * p[0] - p[1] * p[1]).sqrt();
            if 1.0 / g >= 30.0 {
                t.push("ig:mean/shape>=30".into());
            }
            if spec.scalar == Scalar::F32 && 1.0 / g >= 4.3 {
                t.push("ig32:mean/shape>=4.3".into());
            }
        }
        Family::Zeta if p.len() == 1 => {
            // the bias of the acceptance test is visible up to s ~ 1.5 in f32 and ~ 1.25 in f64
            let lim = if spec.scalar == Scalar::F32 { 1.5 } else { 1.25 };
            if p[0] <= lim {
                t.push("zeta:s-near-1".into());
            }
            // f32: 1 + 1/x == 1 for proposals x >= 2^24; their mass is >= 1e-6 up to s ~ 1.85
            if spec.scalar == Scalar::F32 && p[0] <= 1.85 {
                t.push("zeta32:s<=1.85".into());
            }
            // f64: the same beyond 2^53 (precision of t - 1 already gone from ~2^46); that
            // mass is >= 1e-6 up to s ~ 1.45
            if spec.scalar == Scalar::F64 && p[0] <= 1.45 {
                t.push("zeta64:s<=1.45".into());
            }
        }
        Family::Frechet if p.len() == 3 => {
            let inv = 1.0 / p[2];
            if inv.fract() == 0.0 && (inv as i64) % 2 == 1 {
                t.push("frechet:inv_shape_odd_int".into());
            }
        }
        Family::Binomial if spec.n.len() == 1 => {
            if spec.n[0] >= 1u64 << 63 {
                t.push("binomial:n>=2^63".into());
            }
            // BTPE works in f64: results beyond 2^53 are multiples of the f64 spacing
            if !spec.p.is_empty() && spec.n[0] as f64 * spec.p[0].min(1.0 - spec.p[0]) >= 9007199254740992.0 {
                t.push("binomial:mean>=2^53".into());
            }
        }
        Family::Hypergeometric if spec.n.len() == 3 => {
            if spec.n[0] >= 1u64 << 62 {
                t.push("hyper:N>=2^62".into());
            }
            // H2PE compares sums of ln-factorials of magnitude N ln N in f64
            if spec.n[0] >= 1u64 << 37 {
                t.push("hyper:N>=2^37".into());
            }
        }
        Family::Poisson if p.len() == 1 && p[0] >= 1.2e19 => t.push("poisson:lambda>=1.2e19".into()),
        Family::Beta if p.len() == 2 && spec.scalar == Scalar::F32 && p[0].min(p[1]) <= 0.06 && p[0].max(p[1]) >= 500.0 => {
            t.push("beta32:min<=0.06&max>=500".into())
        }
        Family::Triangular if p.len() == 3 => {
            // the sampler computes min + sqrt(..) / max - sqrt(..): where the result is small
            // against |min| or |max| the sum cancels
            let big = p[0].abs().max(p[1].abs());
            let small = p[0].abs().min(p[1].abs()).min(p[2].abs());
            if big >= 4.0 * small && small > 0.0 {
                t.push("triangular:shifted".into());
            }
        }
        // inv_cdf raises to the power q = 1/(1-s) in f32: relative error |q| eps in x, i.e. an
        // absolute error of n |q| eps near n, visible in the unit cells once it reaches ~0.03
        Family::Zipf if p.len() == 2 && spec.scalar == Scalar::F32 && p[1] != 1.0 && p[0] / (p[1] - 1.0).abs() >= 5e5 => {
            t.push("zipf32:n/|s-1|>=5e5".into())
        }
        Family::StudentT if p.len() == 1 && p[0] == 1.0 => t.push("dof=1".into()),
        Family::FisherF if p.len() == 2 && (p[0] == 1.0 || p[1] == 1.0) => t.push("dof=1".into()),
        Family::StudentT if p.len() == 1 && p[0] <= 0.11 => t.push("dof<=0.11".into()),
        Family::FisherF if p.len() == 2 && (p[0] <= 0.11 || p[1] <= 0.11) => t.push("dof<=0.11".into()),
        Family::ChiSquared if p.len() == 1 && p[0] == 2.0 => t.push("gamma:shape=1".into()),
        Family::Gamma if p.len() == 2 && p[0] == 1.0 => t.push("gamma:shape=1".into()),
        _ => {}
    }
    t
}
