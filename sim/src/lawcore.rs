//! Edge tables and the finite-sample decision rule for the law properties
//! (DESIGN §2.7): resolution-aware DKW on the edge CDF, per-cell Chernoff bounds,
//! screening at 1e-7 and confirmation at 1e-9 on an independent stream.

use crate::stats;
use serde::Serialize;

/// One threshold with bounds on the ideal P(X <= e) and P(X > e) that account for the
/// output resolution (the claim tested is "output = correctly rounded ideal variate").
#[derive(Clone, Copy, Debug)]
pub struct Edge<T> {
    pub e: T,
    pub c_lo: f64,
    pub c_hi: f64,
    pub s_lo: f64,
    pub s_hi: f64,
}

#[derive(Clone, Debug)]
pub struct EdgeTable<T> {
    pub edges: Vec<Edge<T>>,
}

#[derive(Clone, Debug, Serialize)]
pub struct Reject {
    pub test: String,   // "dkw" | "cell"
    pub region: String, // human-readable
    pub observed: f64,
    pub expected_lo: f64,
    pub expected_hi: f64,
    pub margin: f64,
    /// where: the threshold (dkw) or the lower edge of the cell; NaN for the G statistic
    pub at: f64,
    /// size of the deviation relative to the reference probability (dkw: relative to
    /// min(F, 1-F); cell: relative to the cell's probability; g: root-mean-square relative
    /// deviation over the cells, sqrt((G - df)/N))
    pub rel: f64,
}

impl Reject {
    /// signature tags for known-finding matching (cumulative buckets)
    pub fn tags(&self) -> Vec<String> {
        let mut t = Vec::new();
        for (thr, name) in [(0.003, "rel<=0.3%"), (0.01, "rel<=1%"), (0.03, "rel<=3%"), (0.1, "rel<=10%"), (0.3, "rel<=30%")] {
            if self.rel <= thr {
                t.push(name.to_string());
            }
        }
        if self.at >= 8388608.0 {
            t.push("x>=2^23".to_string());
        }
        if self.at >= 35184372088832.0 {
            t.push("x>=2^45".to_string());
        }
        t
    }
}

pub trait EdgeVal: Copy + PartialOrd + std::fmt::Debug {
    fn to_f64(self) -> f64;
}
impl EdgeVal for f64 {
    fn to_f64(self) -> f64 {
        self
    }
}
impl EdgeVal for u64 {
    fn to_f64(self) -> f64 {
        self as f64
    }
}

#[derive(Clone, Debug, Default, Serialize)]
pub struct JudgeInfo {
    pub edges: usize,
    pub edges_dropped_unresolvable: usize,
    pub dkw_width: f64,
    /// largest (|F_n - F| - resolution) / width over the edges kept
    pub worst_dkw_ratio: f64,
    /// largest cell margin (1 = at the rejection threshold)
    pub worst_cell_margin: f64,
    /// G statistic / threshold
    pub g_ratio: f64,
}

impl<T: EdgeVal> EdgeTable<T> {
    /// counts[j] = number of samples in cell j, cells: (-inf, e_0], (e_0, e_1], ..., (e_last, inf)
    pub fn cell_of(&self, x: T) -> usize {
        // number of edges strictly below x
        self.edges.partition_point(|ed| ed.e < x)
    }
    pub fn n_cells(&self) -> usize {
        self.edges.len() + 1
    }

    /// Decide at level `alpha`.  `extra` is an additional absolute tolerance on every
    /// reference probability (oracle error bound).
    pub fn judge(&self, counts: &[u64], alpha: f64, extra: f64) -> (Vec<Reject>, JudgeInfo) {
        let n: u64 = counts.iter().sum();
        let nf = n as f64;
        let mut info = JudgeInfo { edges: self.edges.len(), ..Default::default() };
        if n == 0 {
            return (vec![], info);
        }
        let width = stats::dkw_width(nf, alpha);
        info.dkw_width = width;
        let mut dkw: Option<Reject> = None;
        let mut cell: Option<Reject> = None;
        // ---- DKW on the edge CDF -------------------------------------------------
        let mut cum = 0u64;
        for (j, ed) in self.edges.iter().enumerate() {
            cum += counts[j];
            let emp = cum as f64 / nf;
            let (lo, hi) = (ed.c_lo - extra, ed.c_hi + extra);
            if hi - lo > width / 2.0 {
                info.edges_dropped_unresolvable += 1;
                continue;
            }
            let dev = if emp > hi {
                emp - hi
            } else if emp < lo {
                lo - emp
            } else {
                0.0
            };
            let ratio = dev / width;
            if ratio > info.worst_dkw_ratio {
                info.worst_dkw_ratio = ratio;
            }
            if dev > width && dkw.as_ref().map(|r| r.margin < ratio).unwrap_or(true) {
                let base = (0.5 * (lo + hi)).min(1.0 - 0.5 * (lo + hi)).max(1e-300);
                dkw = Some(Reject { test: "dkw".into(), region: format!("P(X <= {:?})", ed.e), observed: emp, expected_lo: lo, expected_hi: hi, margin: ratio, at: ed.e.to_f64(), rel: dev / base });
            }
        }
        // ---- per-cell Chernoff ----------------------------------------------------
        let ncell = self.n_cells();
        let a_cell = alpha / ncell as f64;
        for j in 0..ncell {
            let (p_lo, p_hi) = self.cell_prob(j, extra);
            if p_hi - p_lo > 0.5 * (p_hi.max(1e-300)) && p_hi - p_lo > width / 2.0 {
                continue; // cell not resolvable at the output resolution
            }
            let mg = stats::count_margin(counts[j] as f64, nf, p_lo.max(0.0), p_hi.min(1.0), a_cell);
            if mg > info.worst_cell_margin {
                info.worst_cell_margin = mg;
            }
            if mg > 1.0 && cell.as_ref().map(|r| r.margin < mg).unwrap_or(true) {
                let f = counts[j] as f64 / nf;
                let dev = if f > p_hi { f - p_hi } else { (p_lo - f).max(0.0) };
                let at = if j == 0 { f64::NEG_INFINITY } else { self.edges[j - 1].e.to_f64() };
                cell = Some(Reject { test: "cell".into(), region: self.cell_name(j), observed: f, expected_lo: p_lo, expected_hi: p_hi, margin: mg, at, rel: dev / p_hi.max(1e-300) });
            }
        }
        // ---- G statistic over the well-resolved, well-populated cells ----------------
        // More powerful than the two tests above against distortions spread over many
        // cells.  Conservative use of the resolution interval: a cell whose frequency lies
        // inside [p_lo, p_hi] contributes 0, otherwise the nearer bound is its expectation.
        // Threshold: Wilson-Hilferty quantile of chi^2(df) at alpha * 1e-3 (safety margin for
        // the asymptotic approximation); only cells with N p >= 200 take part.
        let mut g = 0.0;
        let mut df = 0usize;
        for j in 0..ncell {
            let (p_lo, p_hi) = self.cell_prob(j, extra);
            if !(p_lo > 0.0) || nf * p_lo < 200.0 || (p_hi - p_lo) > 1e-3 * p_hi {
                continue;
            }
            df += 1;
            let o = counts[j] as f64;
            let f = o / nf;
            let e = if f < p_lo {
                nf * p_lo
            } else if f > p_hi {
                nf * p_hi
            } else {
                continue;
            };
            if o > 0.0 {
                g += 2.0 * (o * (o / e).ln() - (o - e));
            } else {
                g += 2.0 * e;
            }
        }
        let mut gt: Option<Reject> = None;
        if df >= 8 {
            let z = if alpha >= 5e-8 { 6.3613 } else { 7.0345 }; // Phi^-1(1 - alpha*1e-3) for 1e-7 / 1e-9
            let d = df as f64;
            let thr = d * (1.0 - 2.0 / (9.0 * d) + z * (2.0 / (9.0 * d)).sqrt()).powi(3);
            info.g_ratio = g / thr;
            if g > thr {
                gt = Some(Reject { test: "g".into(), region: format!("{df} resolved cells"), observed: g, expected_lo: d, expected_hi: thr, margin: g / thr, at: f64::NAN, rel: ((g - d).max(0.0) / nf).sqrt() });
            }
        }
        (dkw.into_iter().chain(cell).chain(gt).collect(), info)
    }

    pub fn cell_name(&self, j: usize) -> String {
        if self.edges.is_empty() {
            return "(-inf, inf)".into();
        }
        if j == 0 {
            format!("(-inf, {:?}]", self.edges[0].e)
        } else if j == self.edges.len() {
            format!("({:?}, inf)", self.edges[j - 1].e)
        } else {
            format!("({:?}, {:?}]", self.edges[j - 1].e, self.edges[j].e)
        }
    }

    /// bounds on the ideal probability of cell j
    pub fn cell_prob(&self, j: usize, extra: f64) -> (f64, f64) {
        let m = self.edges.len();
        if m == 0 {
            return (1.0, 1.0);
        }
        let (lo, hi) = if j == 0 {
            (self.edges[0].c_lo, self.edges[0].c_hi)
        } else if j == m {
            (self.edges[m - 1].s_lo, self.edges[m - 1].s_hi)
        } else {
            let a = &self.edges[j - 1];
            let b = &self.edges[j];
            if b.c_hi < 0.5 {
                (b.c_lo - a.c_hi, b.c_hi - a.c_lo)
            } else {
                (a.s_lo - b.s_hi, a.s_hi - b.s_lo)
            }
        };
        (lo - 2.0 * extra, hi + 2.0 * extra)
    }
}

/// ulp of x in the output type
pub fn ulp_out(x: f64, f32_: bool) -> f64 {
    if f32_ {
        let a = (x as f32).abs();
        if !a.is_finite() {
            return f64::INFINITY;
        }
        if a == 0.0 {
            return f32::from_bits(1) as f64;
        }
        (f32::from_bits(a.to_bits() + 1) - a) as f64
    } else {
        let a = x.abs();
        if !a.is_finite() {
            return f64::INFINITY;
        }
        if a == 0.0 {
            return f64::from_bits(1);
        }
        f64::from_bits(a.to_bits() + 1) - a
    }
}

/// Build a continuous edge table from candidate thresholds.  `delta(e)` is the output
/// resolution (in x) at e; `cdf`/`sf` are the reference functions.
pub fn table_cont(cand: Vec<f64>, f32_: bool, cdf: &dyn Fn(f64) -> f64, sf: &dyn Fn(f64) -> f64, delta: &dyn Fn(f64) -> f64) -> EdgeTable<f64> {
    table_cont_scaled(cand, f32_, 1.0, cdf, sf, delta)
}

/// `zone_scale`: samplers of scale families compute a standardised variate and multiply
/// by the scale last, so the standardised variate underflows at output magnitude
/// `scale * MIN_POSITIVE`; the underflow zone is widened accordingly (never narrowed).
pub fn table_cont_scaled(
    mut cand: Vec<f64>,
    f32_: bool,
    zone_scale: f64,
    cdf: &dyn Fn(f64) -> f64,
    sf: &dyn Fn(f64) -> f64,
    delta: &dyn Fn(f64) -> f64,
) -> EdgeTable<f64> {
    // Underflow zone: below 2^10 * MIN_POSITIVE of the output type neither the output
    // spacing nor the intermediate arithmetic of a sampler is relative any more; values in
    // the zone are lumped into one cell by snapping thresholds to its boundary.
    let zone = (if f32_ { 1024.0 * f32::MIN_POSITIVE as f64 } else { 1024.0 * f64::MIN_POSITIVE }) * zone_scale.max(1.0);
    for x in cand.iter_mut() {
        if x.abs() < zone {
            *x = zone.copysign(*x); // +-0.0 included: an exact 0 is an underflowed value
        }
        if f32_ {
            *x = *x as f32 as f64; // thresholds must be representable in the output type
        }
    }
    cand.retain(|x| x.is_finite());
    cand.sort_by(|a, b| a.partial_cmp(b).unwrap());
    cand.dedup();
    let edges = cand
        .into_iter()
        .map(|e| {
            crate::runner::tick();
            let d = delta(e);
            let (a, b) = (e - d, e + d);
            let (c1, c2) = (cdf(a), cdf(b));
            let (s1, s2) = (sf(a), sf(b));
            Edge { e, c_lo: c1.min(c2), c_hi: c1.max(c2), s_lo: s1.min(s2), s_hi: s1.max(s2) }
        })
        .collect();
    EdgeTable { edges }
}

/// Candidate thresholds from a pilot sample (order statistics) — edges fixed before the
/// main sample is drawn, so any choice is valid.
pub fn pilot_edges(pilot: &mut Vec<f64>, n_central: usize) -> Vec<f64> {
    pilot.retain(|x| x.is_finite());
    pilot.sort_by(|a, b| a.partial_cmp(b).unwrap());
    let m = pilot.len();
    let mut v = Vec::new();
    if m == 0 {
        return v;
    }
    for k in 1..n_central {
        v.push(pilot[(k * m / n_central).min(m - 1)]);
    }
    // a few extreme order statistics
    for k in [0usize, 1, 3, 7, 15, 31] {
        if k < m {
            v.push(pilot[k]);
            v.push(pilot[m - 1 - k]);
        }
    }
    v
}
