#!/bin/bash
# tools_seeded_regress.sh [tier] [seeded-id ...]
#
# Sensitivity regression: every change stored under seeded/ that meta.json lists as detected
# must still be reported by the check named first in "detected_by_quick_checks" (tier quick),
# With tier = thorough only the changes with a "detected_by_thorough_checks" entry are run
# (those that the quick tier is too coarse for).
#
# Works entirely on scratch copies (a git worktree of /repo HEAD and a copy of /verif whose
# path dependency points at that worktree) under $SCRATCH, so neither /repo nor /verif is
# touched and ordinary checks can run at the same time.  Removes the copies at the end.
# Output: one line per change; exit 0 iff every listed detection still happens.
tier=${1:-quick}; shift
SCRATCH=${SCRATCH:-/root/scratch/regress}
ids=${@:-$(cd /verif/seeded && ls -d */ | tr -d /)}
rm -rf $SCRATCH; mkdir -p $SCRATCH
git -C /repo worktree prune
git -C /repo worktree add -q --detach $SCRATCH/repo HEAD || exit 2
rsync -a --exclude target --exclude .git --exclude replays --exclude evidence /verif/ $SCRATCH/verif/
mkdir -p $SCRATCH/verif/evidence $SCRATCH/verif/replays
sed -i "s#path = \"/repo\"#path = \"$SCRATCH/repo\"#" $SCRATCH/verif/sim/Cargo.toml $SCRATCH/verif/threads/Cargo.toml
bad=0
for id in $ids; do
  meta=/verif/seeded/$id/meta.json
  field=detected_by_quick_checks; [ "$tier" = thorough ] && field=detected_by_thorough_checks
  props=$(python3 -c "import json,sys; print(' '.join(json.load(open('$meta')).get('$field',[])))")
  if [ -z "$props" ]; then echo "$id: not listed in $field (skipped)"; continue; fi
  p=${props%% *}
  ( cd $SCRATCH/repo && git checkout -q -- . && git apply /verif/seeded/$id/patch.diff ) || { echo "$id: PATCH-DOES-NOT-APPLY"; bad=1; continue; }
  s=$(date +%s)
  ( cd $SCRATCH/verif && ./check $p $tier ) > $SCRATCH/$id.log 2>&1; rc=$?
  e=$(date +%s)
  n=$(grep -c '^VIOLATION' $SCRATCH/$id.log)
  if [ $rc -eq 1 ] && [ $n -gt 0 ]; then echo "$id: reported by $p $tier ($n violations, $((e-s))s)"; else echo "$id: NOT REPORTED by $p $tier (rc=$rc)"; bad=1; fi
done
[ -n "$KEEP" ] && { echo "kept $SCRATCH (patched with the last change); remove with: git -C /repo worktree remove --force $SCRATCH/repo; rm -rf $SCRATCH"; exit $bad; }
( cd $SCRATCH/repo && git checkout -q -- . )
git -C /repo worktree remove --force $SCRATCH/repo
rm -rf $SCRATCH
exit $bad
